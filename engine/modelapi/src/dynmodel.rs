//! Uniform, dynamically dispatched view of a generated model (implemented by generated glue).
pub trait DynModel {
    fn new_el(&mut self, ty: usize) -> u32;
    /// element of a member type, created inside the given model element (`new_<type>(parent)`)
    fn new_member(&mut self, ty: usize, parent: u32) -> u32;
    fn new_enum(&mut self, ty: usize, ctor: usize, args: &[u32]) -> u32;
    fn insert(&mut self, rel: usize, args: &[u32]);
    fn define(&mut self, rel: usize, args: &[u32]) -> u32;
    fn equate(&mut self, ty: usize, a: u32, b: u32);
    fn are_equal(&self, ty: usize, a: u32, b: u32) -> bool;
    fn root(&self, ty: usize, a: u32) -> u32;
    fn iter_type(&self, ty: usize) -> Vec<u32>;
    fn holds(&self, rel: usize, args: &[u32]) -> bool;
    fn eval(&self, rel: usize, args: &[u32]) -> Option<u32>;
    fn iter_rel(&self, rel: usize) -> Vec<Vec<u32>>;
    fn enum_cases(&self, ty: usize, el: u32) -> Vec<(usize, Vec<u32>)>;
    fn enum_case(&self, ty: usize, el: u32) -> (usize, Vec<u32>);
    fn close(&mut self);
    fn close_until(&mut self, cond: &dyn Fn(&dyn DynModel) -> bool) -> bool;
    // private state, read by textual inclusion into the generated module
    fn dump_internal(&self) -> String;
    fn index_rows(&self) -> Vec<Vec<Vec<u32>>>;
    fn index_nonempty_flags(&self) -> Vec<bool>;
    fn elem_index_rows(&self) -> Vec<Vec<(u32, Vec<Vec<u32>>)>>;
    fn id_counters(&self) -> Vec<usize>;
    fn uprooted(&self) -> Vec<Vec<u32>>;
    fn is_dirty_internal(&self) -> bool;
    fn move_new_to_old_internal(&mut self);
    fn canonicalize_internal(&mut self);
    fn rule_pass(&mut self) -> Vec<(&'static str, Vec<Vec<u32>>)>;
}

pub struct Entry {
    pub name: &'static str,
    pub ast_json: &'static str,
    pub generated: &'static str,
    pub make: fn() -> Box<dyn DynModel>,
}

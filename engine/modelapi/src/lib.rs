pub mod dynmodel;

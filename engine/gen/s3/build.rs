// Points this shard at its generated theories.
fn main() {
    println!("cargo:rerun-if-env-changed=VERIF_GEN_ROOT");
    let root = std::env::var("VERIF_GEN_ROOT").expect("VERIF_GEN_ROOT");
    let pkg = std::env::var("CARGO_PKG_NAME").unwrap();
    let shard = pkg.trim_start_matches("gen_");
    println!("cargo:rustc-env=VERIF_GEN_DIR={root}/{shard}");
    println!("cargo:rerun-if-changed={root}/{shard}/registry.rs");
}

// Component-mode harness builds link the component libraries eqlog produced; the list of cargo
// directives is written by /verif/lib/modelgen.py.
fn main() {
    println!("cargo:rerun-if-env-changed=VERIF_LINK_FILE");
    println!("cargo:rerun-if-env-changed=VERIF_GEN_DIR");
    let dir = std::env::var("VERIF_GEN_DIR").expect("VERIF_GEN_DIR");
    println!("cargo:rerun-if-changed={dir}/registry.rs");
    if let Ok(path) = std::env::var("VERIF_LINK_FILE") {
        println!("cargo:rerun-if-changed={path}");
        if let Ok(text) = std::fs::read_to_string(&path) {
            for line in text.lines() {
                if line.starts_with("cargo:") {
                    println!("{line}");
                }
            }
        }
    }
}

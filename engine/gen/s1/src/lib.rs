#![allow(warnings)]
pub use modelapi::dynmodel;
include!(concat!(env!("VERIF_GEN_DIR"), "/registry.rs"));

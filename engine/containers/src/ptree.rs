//! C08 — breadth-first exploration of operation sequences on families of live prefix trees
//! (A, B: arity N; S: arity N-1; C: a clone of A taken at some step), arities 0..=9, against
//! `BTreeSet<Vec<u32>>`.
use eqlog_runtime::*;
use serde_json::{json, Value};
use std::collections::{BTreeSet, HashSet};
use std::fmt::Debug;
use std::hash::{Hash, Hasher};

pub type Tup = Vec<u32>;
pub type RefSet = BTreeSet<Tup>;

/// Uniform view of the ten hand-copied container types.
pub trait PT: Clone + Debug {
    const N: usize;
    type Sub: PT;
    fn new() -> Self;
    fn insert(&mut self, t: &[u32]) -> bool;
    fn remove(&mut self, t: &[u32]) -> bool;
    fn contains(&self, t: &[u32]) -> bool;
    fn is_empty(&self) -> bool;
    fn clear(&mut self);
    fn iter_all(&self) -> Vec<Tup>;
    fn union(&self, o: &Self) -> Self;
    fn difference(&self, o: &Self) -> Self;
    /// None when the arity has no such operation (arity 0).
    fn get_sub(&self, k: u32) -> Option<Option<Vec<Tup>>>;
    fn iter_restr(&self) -> Option<Vec<(u32, Vec<Tup>)>>;
    fn insert_restr(&mut self, k: u32, s: Self::Sub) -> bool;
    fn remove_restr(&mut self, k: u32, s: &Self::Sub) -> bool;
    fn mapped_cols(&self, maps: &[Option<PrefixTree2>]) -> Self;
    fn empty_static_is_empty() -> bool;
}

impl PT for PrefixTree0 {
    const N: usize = 0;
    type Sub = PrefixTree0;
    fn new() -> Self { PrefixTree0::new() }
    fn insert(&mut self, _t: &[u32]) -> bool { PrefixTree0::insert(self, []) }
    fn remove(&mut self, _t: &[u32]) -> bool { PrefixTree0::remove(self, []) }
    fn contains(&self, _t: &[u32]) -> bool { PrefixTree0::contains(self, []) }
    fn is_empty(&self) -> bool { PrefixTree0::is_empty(self) }
    fn clear(&mut self) { PrefixTree0::clear(self) }
    fn iter_all(&self) -> Vec<Tup> { self.iter().map(|a| a.to_vec()).collect() }
    fn union(&self, o: &Self) -> Self { PrefixTree0::union(self, o) }
    fn difference(&self, o: &Self) -> Self { PrefixTree0::difference(self, o) }
    fn get_sub(&self, _k: u32) -> Option<Option<Vec<Tup>>> { None }
    fn iter_restr(&self) -> Option<Vec<(u32, Vec<Tup>)>> { None }
    fn insert_restr(&mut self, _k: u32, _s: Self::Sub) -> bool { false }
    fn remove_restr(&mut self, _k: u32, _s: &Self::Sub) -> bool { false }
    fn mapped_cols(&self, _maps: &[Option<PrefixTree2>]) -> Self { self.mapped() }
    fn empty_static_is_empty() -> bool { PrefixTree0::empty().is_empty() }
}

macro_rules! impl_pt {
    ($ty:ident, $sub:ident, $n:expr, [$($i:expr),*]) => {
        impl PT for $ty {
            const N: usize = $n;
            type Sub = $sub;
            fn new() -> Self { $ty::new() }
            fn insert(&mut self, t: &[u32]) -> bool { $ty::insert(self, [$(t[$i]),*]) }
            fn remove(&mut self, t: &[u32]) -> bool { $ty::remove(self, [$(t[$i]),*]) }
            fn contains(&self, t: &[u32]) -> bool { $ty::contains(self, [$(t[$i]),*]) }
            fn is_empty(&self) -> bool { $ty::is_empty(self) }
            fn clear(&mut self) { $ty::clear(self) }
            fn iter_all(&self) -> Vec<Tup> { self.iter().map(|a| a.to_vec()).collect() }
            fn union(&self, o: &Self) -> Self { $ty::union(self, o) }
            fn difference(&self, o: &Self) -> Self { $ty::difference(self, o) }
            fn get_sub(&self, k: u32) -> Option<Option<Vec<Tup>>> {
                Some(self.get(k).map(|s| <$sub as PT>::iter_all(s)))
            }
            fn iter_restr(&self) -> Option<Vec<(u32, Vec<Tup>)>> {
                Some(self.iter_restrictions().map(|(k, s)| (k, <$sub as PT>::iter_all(std::borrow::Borrow::<$sub>::borrow(&s)))).collect())
            }
            fn insert_restr(&mut self, k: u32, s: Self::Sub) -> bool { self.insert_restriction(k, s); true }
            fn remove_restr(&mut self, k: u32, s: &Self::Sub) -> bool { self.remove_restriction(k, s); true }
            fn mapped_cols(&self, maps: &[Option<PrefixTree2>]) -> Self {
                self.mapped($(maps[$i].clone()),*)
            }
            fn empty_static_is_empty() -> bool { $ty::empty().is_empty() && $ty::empty().iter().next().is_none() }
        }
    };
}
impl_pt!(PrefixTree1, PrefixTree0, 1, [0]);
impl_pt!(PrefixTree2, PrefixTree1, 2, [0, 1]);
impl_pt!(PrefixTree3, PrefixTree2, 3, [0, 1, 2]);
impl_pt!(PrefixTree4, PrefixTree3, 4, [0, 1, 2, 3]);
impl_pt!(PrefixTree5, PrefixTree4, 5, [0, 1, 2, 3, 4]);
impl_pt!(PrefixTree6, PrefixTree5, 6, [0, 1, 2, 3, 4, 5]);
impl_pt!(PrefixTree7, PrefixTree6, 7, [0, 1, 2, 3, 4, 5, 6]);
impl_pt!(PrefixTree8, PrefixTree7, 8, [0, 1, 2, 3, 4, 5, 6, 7]);
impl_pt!(PrefixTree9, PrefixTree8, 9, [0, 1, 2, 3, 4, 5, 6, 7, 8]);

#[derive(Clone, Copy, Debug, PartialEq, Eq)]
pub enum Who { A, B }

#[derive(Clone, Debug, PartialEq, Eq)]
pub enum Op {
    Insert(Who, usize),      // pool index
    Remove(Who, usize),
    SInsert(usize),          // sub pool index
    SRemove(usize),
    Clear(Who),
    SClear,
    UnionInto(Who),          // X = A.union(&B)
    DiffInto(Who),           // X = A.difference(&B)
    DiffRevIntoB,            // B = B.difference(&A)
    InsertRestr(Who, u32),   // X.insert_restriction(k, S.clone())
    RemoveRestr(Who, u32),   // X.remove_restriction(k, &S)
    Mapped(Who, usize),      // X = X.mapped(family[i])
    CloneA,                  // C = A.clone()
    RestoreA,                // A = C.clone()
    CopyAtoB,                // B = A.clone()
}

fn op_to_string(op: &Op) -> String { format!("{:?}", op) }

pub fn parse_op(s: &str) -> Result<Op, String> {
    let s = s.trim();
    let (name, args) = match s.find('(') {
        Some(i) => (&s[..i], s[i + 1..s.len() - 1].split(',').map(|x| x.trim().to_string()).collect::<Vec<_>>()),
        None => (s, vec![]),
    };
    let who = |x: &str| -> Result<Who, String> { match x { "A" => Ok(Who::A), "B" => Ok(Who::B), _ => Err(format!("who {x}")) } };
    let num = |x: &str| -> Result<usize, String> { x.parse::<usize>().map_err(|e| e.to_string()) };
    Ok(match name {
        "Insert" => Op::Insert(who(&args[0])?, num(&args[1])?),
        "Remove" => Op::Remove(who(&args[0])?, num(&args[1])?),
        "SInsert" => Op::SInsert(num(&args[0])?),
        "SRemove" => Op::SRemove(num(&args[0])?),
        "Clear" => Op::Clear(who(&args[0])?),
        "SClear" => Op::SClear,
        "UnionInto" => Op::UnionInto(who(&args[0])?),
        "DiffInto" => Op::DiffInto(who(&args[0])?),
        "DiffRevIntoB" => Op::DiffRevIntoB,
        "InsertRestr" => Op::InsertRestr(who(&args[0])?, num(&args[1])? as u32),
        "RemoveRestr" => Op::RemoveRestr(who(&args[0])?, num(&args[1])? as u32),
        "Mapped" => Op::Mapped(who(&args[0])?, num(&args[1])?),
        "CloneA" => Op::CloneA,
        "RestoreA" => Op::RestoreA,
        "CopyAtoB" => Op::CopyAtoB,
        _ => return Err(format!("unknown op {s}")),
    })
}

#[derive(Clone)]
pub struct Fam<T: PT> {
    a: T, b: T, s: T::Sub, c: T,
    ra: RefSet, rb: RefSet, rs: RefSet, rc: RefSet,
}

/// Column maps as the generated code passes them: function graphs key -> value.
#[derive(Clone, Debug)]
pub struct ColMap { pub name: &'static str, pub pairs: Vec<(u32, u32)> }

pub struct Alphabet {
    pub pool: Vec<Tup>,
    pub subpool: Vec<Tup>,
    pub firsts: Vec<u32>,
    /// each entry: per column, index into `maps` or None (identity)
    pub mapped_family: Vec<Vec<Option<usize>>>,
    pub maps: Vec<ColMap>,
    pub values: Vec<u32>,
}

pub fn alphabet(n: usize, rich: bool) -> Alphabet {
    let cube = |n: usize, base: u32| -> Vec<Tup> {
        let mut v = vec![vec![]];
        for _ in 0..n {
            let mut w = Vec::new();
            for t in &v { for x in 0..base { let mut t2: Tup = t.clone(); t2.push(x); w.push(t2); } }
            v = w;
        }
        v
    };
    let special = |n: usize| -> Vec<Tup> {
        // zeros, last column 1, middle column 1, first column 1, staircase (all columns distinct)
        if n == 0 { return vec![vec![]]; }
        let z = vec![0u32; n];
        let mut out = vec![z.clone()];
        let mut t = z.clone(); t[n - 1] = 1; out.push(t);
        let mut t = z.clone(); t[n / 2] = 1; out.push(t);
        let mut t = z.clone(); t[0] = 1; out.push(t);
        out.push((0..n as u32).collect());
        let mut seen = BTreeSet::new();
        out.retain(|t| seen.insert(t.clone()));
        out
    };
    let (pool, subpool): (Vec<Tup>, Vec<Tup>) = match n {
        0 => (vec![vec![]], vec![vec![]]),
        1 => (cube(1, 3), vec![vec![]]),
        2 => (if rich { cube(2, 3) } else { cube(2, 2) }, cube(1, 2)),
        3 => (cube(3, 2), cube(2, 2)),
        _ => (special(n), special(n - 1)),
    };
    let values: Vec<u32> = {
        let mut s = BTreeSet::new();
        for t in pool.iter().chain(subpool.iter()) { for &x in t { s.insert(x); } }
        s.insert(0); s.insert(1);
        s.into_iter().collect()
    };
    let maxv = *values.iter().max().unwrap();
    let maps = vec![
        ColMap { name: "swap01", pairs: { let mut p: Vec<(u32,u32)> = values.iter().map(|&v| (v, match v {0=>1,1=>0,x=>x})).collect(); p.sort(); p } },
        ColMap { name: "const0", pairs: values.iter().map(|&v| (v, 0)).collect() },
        ColMap { name: "only0", pairs: vec![(0, 0)] },
        ColMap { name: "only1to5", pairs: vec![(1, maxv + 4)] },
        ColMap { name: "none", pairs: vec![] },
    ];
    let mut fam: Vec<Vec<Option<usize>>> = Vec::new();
    if n > 0 {
        fam.push(vec![None; n]); // identity
        for mi in 0..maps.len() {
            fam.push(vec![Some(mi); n]); // same map on every column
            let mut f = vec![None; n]; f[0] = Some(mi); fam.push(f);
            let mut f = vec![None; n]; f[n - 1] = Some(mi); fam.push(f);
            if n >= 3 { let mut f = vec![None; n]; f[n / 2] = Some(mi); fam.push(f); }
        }
        if n >= 2 {
            // different maps on different columns (detects permuted map arguments)
            let mut f = vec![None; n]; f[0] = Some(0); f[n - 1] = Some(3); fam.push(f);
            let mut f = vec![None; n]; f[0] = Some(2); f[1] = Some(0); fam.push(f);
        }
        let mut seen = HashSet::new();
        fam.retain(|f| seen.insert(f.clone()));
    } else {
        fam.push(vec![]);
    }
    let firsts: Vec<u32> = if n == 0 { vec![] } else {
        let mut s: BTreeSet<u32> = pool.iter().map(|t| t[0]).collect();
        s.insert(2);
        s.into_iter().collect()
    };
    Alphabet { pool, subpool, firsts, mapped_family: fam, maps, values }
}

fn build_map(m: &ColMap) -> PrefixTree2 {
    let mut t = PrefixTree2::new();
    for &(k, v) in &m.pairs { t.insert([k, v]); }
    t
}

fn ref_mapped(r: &RefSet, fam: &[Option<usize>], maps: &[ColMap]) -> RefSet {
    let mut out = RefSet::new();
    'tuples: for t in r {
        let mut u = t.clone();
        for (i, f) in fam.iter().enumerate() {
            if let Some(mi) = f {
                match maps[*mi].pairs.iter().find(|p| p.0 == t[i]) {
                    Some(p) => u[i] = p.1,
                    None => continue 'tuples,
                }
            }
        }
        out.insert(u);
    }
    out
}

fn ops_for<T: PT>(al: &Alphabet) -> Vec<Op> {
    let mut v = Vec::new();
    for i in 0..al.pool.len() { v.push(Op::Insert(Who::A, i)); }
    for i in 0..al.pool.len() { v.push(Op::Remove(Who::A, i)); }
    for i in 0..al.pool.len() { v.push(Op::Insert(Who::B, i)); }
    for i in 0..al.pool.len() { v.push(Op::Remove(Who::B, i)); }
    if T::N >= 1 {
        for i in 0..al.subpool.len() { v.push(Op::SInsert(i)); }
        for i in 0..al.subpool.len() { v.push(Op::SRemove(i)); }
        v.push(Op::SClear);
    }
    v.push(Op::Clear(Who::A));
    v.push(Op::UnionInto(Who::A));
    v.push(Op::UnionInto(Who::B));
    v.push(Op::DiffInto(Who::A));
    v.push(Op::DiffInto(Who::B));
    v.push(Op::DiffRevIntoB);
    if T::N >= 1 {
        for &k in &al.firsts { v.push(Op::InsertRestr(Who::A, k)); v.push(Op::RemoveRestr(Who::A, k)); }
        for i in 0..al.mapped_family.len() { v.push(Op::Mapped(Who::A, i)); }
    }
    v.push(Op::CloneA);
    v.push(Op::RestoreA);
    v.push(Op::CopyAtoB);
    v
}

fn check_one<T: PT>(name: &str, t: &T, r: &RefSet, al: &Alphabet) -> Result<(), String> {
    let it = t.iter_all();
    let expect: Vec<Tup> = r.iter().cloned().collect();
    if it != expect {
        return Err(format!("{name}.iter() = {it:?}, reference (sorted, duplicate-free) = {expect:?}"));
    }
    if t.is_empty() != r.is_empty() {
        return Err(format!("{name}.is_empty() = {}, but the container holds {} tuples", t.is_empty(), r.len()));
    }
    for p in al.pool.iter().chain(r.iter()) {
        if p.len() == T::N && t.contains(p) != r.contains(p) {
            return Err(format!("{name}.contains({p:?}) = {}, reference {}", t.contains(p), r.contains(p)));
        }
    }
    if T::N >= 1 {
        let mut keys: BTreeSet<u32> = al.values.iter().copied().collect();
        for x in r { keys.insert(x[0]); }
        keys.insert(77);
        for &k in &keys {
            let expect: Vec<Tup> = r.iter().filter(|x| x[0] == k).map(|x| x[1..].to_vec()).collect();
            match t.get_sub(k).unwrap() {
                None => if !expect.is_empty() {
                    return Err(format!("{name}.get({k}) = None, reference has {expect:?} under that prefix"));
                },
                Some(got) => {
                    if got != expect {
                        return Err(format!("{name}.get({k}) holds {got:?}, reference {expect:?}"));
                    }
                }
            }
        }
        let restr = t.iter_restr().unwrap();
        let mut flat: Vec<Tup> = Vec::new();
        let mut last: Option<u32> = None;
        for (k, sub) in &restr {
            if let Some(l) = last { if l >= *k { return Err(format!("{name}.iter_restrictions() keys not strictly increasing: {l} then {k}")); } }
            last = Some(*k);
            for s in sub { let mut x = vec![*k]; x.extend_from_slice(s); flat.push(x); }
        }
        if flat != expect {
            return Err(format!("{name}.iter_restrictions() flattens to {flat:?}, reference {expect:?}"));
        }
    }
    Ok(())
}

impl<T: PT> Fam<T> {
    fn new() -> Self {
        Fam { a: T::new(), b: T::new(), s: <T::Sub as PT>::new(), c: T::new(),
              ra: RefSet::new(), rb: RefSet::new(), rs: RefSet::new(), rc: RefSet::new() }
    }
    fn check_all(&self, al: &Alphabet) -> Result<(), String> {
        check_one("A", &self.a, &self.ra, al)?;
        check_one("B", &self.b, &self.rb, al)?;
        check_one("C(clone of A)", &self.c, &self.rc, al)?;
        if T::N >= 1 {
            let sub_al = alphabet(T::N - 1, false);
            check_one("S", &self.s, &self.rs, &sub_al)?;
        }
        Ok(())
    }
    fn key(&self) -> (u64, u64) {
        let s = format!("{:?}|{:?}|{:?}|{:?}", self.a, self.b, self.s, self.c);
        let mut h1 = std::collections::hash_map::DefaultHasher::new();
        s.hash(&mut h1);
        let mut h2 = std::collections::hash_map::DefaultHasher::new();
        0xfeed_u64.hash(&mut h2);
        s.hash(&mut h2);
        (h1.finish(), h2.finish())
    }
    fn apply(&mut self, op: &Op, al: &Alphabet) -> Result<(), String> {
        macro_rules! pick { ($w:expr) => { match $w { Who::A => (&mut self.a, &mut self.ra), Who::B => (&mut self.b, &mut self.rb) } } }
        match op {
            Op::Insert(w, i) => {
                let (t, r) = pick!(*w);
                let x = t.insert(&al.pool[*i]);
                let y = r.insert(al.pool[*i].clone());
                if x != y { return Err(format!("insert returned {x}, reference {y}")); }
            }
            Op::Remove(w, i) => {
                let (t, r) = pick!(*w);
                let x = t.remove(&al.pool[*i]);
                let y = r.remove(&al.pool[*i]);
                if x != y { return Err(format!("remove returned {x}, reference {y}")); }
            }
            Op::SInsert(i) => {
                let x = self.s.insert(&al.subpool[*i]);
                let y = self.rs.insert(al.subpool[*i].clone());
                if x != y { return Err(format!("insert (sub-relation) returned {x}, reference {y}")); }
            }
            Op::SRemove(i) => {
                let x = self.s.remove(&al.subpool[*i]);
                let y = self.rs.remove(&al.subpool[*i]);
                if x != y { return Err(format!("remove (sub-relation) returned {x}, reference {y}")); }
            }
            Op::Clear(w) => { let (t, r) = pick!(*w); t.clear(); r.clear(); }
            Op::SClear => { self.s.clear(); self.rs.clear(); }
            Op::UnionInto(w) => {
                let u = self.a.union(&self.b);
                let ru: RefSet = self.ra.union(&self.rb).cloned().collect();
                let (t, r) = pick!(*w); *t = u; *r = ru;
            }
            Op::DiffInto(w) => {
                let u = self.a.difference(&self.b);
                let ru: RefSet = self.ra.difference(&self.rb).cloned().collect();
                let (t, r) = pick!(*w); *t = u; *r = ru;
            }
            Op::DiffRevIntoB => {
                let u = self.b.difference(&self.a);
                let ru: RefSet = self.rb.difference(&self.ra).cloned().collect();
                self.b = u; self.rb = ru;
            }
            Op::InsertRestr(w, k) => {
                let s = self.s.clone();
                let rs = self.rs.clone();
                let (t, r) = pick!(*w);
                t.insert_restr(*k, s);
                for x in rs { let mut y = vec![*k]; y.extend(x); r.insert(y); }
            }
            Op::RemoveRestr(w, k) => {
                let (t, r) = match w { Who::A => (&mut self.a, &mut self.ra), Who::B => (&mut self.b, &mut self.rb) };
                t.remove_restr(*k, &self.s);
                for x in &self.rs { let mut y = vec![*k]; y.extend(x.iter().copied()); r.remove(&y); }
            }
            Op::Mapped(w, i) => {
                let fam = &al.mapped_family[*i];
                let maps: Vec<Option<PrefixTree2>> = fam.iter().map(|f| f.map(|mi| build_map(&al.maps[mi]))).collect();
                let (t, r) = pick!(*w);
                let m = t.mapped_cols(&maps);
                let rm = ref_mapped(r, fam, &al.maps);
                *t = m; *r = rm;
            }
            Op::CloneA => { self.c = self.a.clone(); self.rc = self.ra.clone(); }
            Op::RestoreA => { self.a = self.c.clone(); self.ra = self.rc.clone(); }
            Op::CopyAtoB => { self.b = self.a.clone(); self.rb = self.ra.clone(); }
        }
        Ok(())
    }
}

pub struct ArityResult {
    pub n: usize,
    pub states: u64,
    pub transitions: u64,
    pub depth_completed: usize,
    pub fixpoint: bool,
    pub capped: bool,
    pub nontrivial: u64,
    pub violations: Vec<Value>,
    pub sample: Value,
}

fn history_json(h: &[Op]) -> Value { json!(h.iter().map(op_to_string).collect::<Vec<_>>()) }

pub fn explore<T: PT>(max_depth: usize, state_cap: u64, wall_cap_s: u64, rich: bool) -> ArityResult {
    let t0 = std::time::Instant::now();
    let al = alphabet(T::N, rich);
    let ops = ops_for::<T>(&al);
    let mut seen: HashSet<(u64, u64)> = HashSet::new();
    let mut violations: Vec<Value> = Vec::new();
    let mut frontier: Vec<(Fam<T>, Vec<Op>)> = vec![(Fam::new(), vec![])];
    seen.insert(frontier[0].0.key());
    let mut transitions = 0u64;
    let mut depth_completed = 0usize;
    let mut fixpoint = false;
    let mut capped = false;
    let mut nontrivial = 0u64;
    let mut sample = json!([]);
    if !T::empty_static_is_empty() {
        violations.push(json!({"sig":"empty()", "summary":"the shared empty container is not empty", "replay": {"arity": T::N, "history": [], "op": "empty()"}}));
    }
    let mut viol_sigs: HashSet<String> = HashSet::new();
    for depth in 0..max_depth {
        let mut next: Vec<(Fam<T>, Vec<Op>)> = Vec::new();
        for (st, hist) in frontier.iter() {
            // the stored state itself must still agree with its references (nothing that happened
            // to its successors may have leaked into it through shared nodes)
            if let Err(msg) = st.check_all(&al) {
                let sig = format!("stale:{}", sig_of(&msg));
                if viol_sigs.insert(sig.clone()) && violations.len() < 40 {
                    violations.push(json!({"sig": sig, "summary": format!("a stored container changed after operations on its clones: {msg}"),
                        "replay": {"arity": T::N, "rich": rich, "history": history_json(hist), "op": Value::Null, "message": msg}}));
                }
                continue;
            }
            for op in &ops {
                transitions += 1;
                let mut st2 = st.clone();
                let res = st2.apply(op, &al).and_then(|_| st2.check_all(&al));
                if let Err(msg) = res {
                    let sig = format!("{}:{}", op_name(op), sig_of(&msg));
                    if viol_sigs.insert(sig.clone()) && violations.len() < 40 {
                        violations.push(json!({"sig": sig, "summary": msg,
                            "replay": {"arity": T::N, "rich": rich, "history": history_json(hist), "op": op_to_string(op), "message": msg}}));
                    }
                    continue;
                }
                let key = st2.key();
                if seen.insert(key) {
                    if !st2.ra.is_empty() && !st2.rb.is_empty() && st2.ra != st2.rb { nontrivial += 1; }
                    let mut h2 = hist.clone();
                    h2.push(op.clone());
                    if seen.len() % 1000 == 17 || sample == json!([]) && h2.len() >= 3 { sample = history_json(&h2); }
                    next.push((st2, h2));
                }
            }
            if seen.len() as u64 > state_cap || t0.elapsed().as_secs() > wall_cap_s {
                capped = true;
                break;
            }
        }
        if capped { break; }
        depth_completed = depth + 1;
        if next.is_empty() { fixpoint = true; break; }
        frontier = next;
    }
    ArityResult { n: T::N, states: seen.len() as u64, transitions, depth_completed, fixpoint, capped, nontrivial, violations, sample }
}

fn op_name(op: &Op) -> String { let s = op_to_string(op); s.split('(').next().unwrap().to_string() }
fn sig_of(msg: &str) -> String {
    // drop concrete tuples: keep the text up to the first '=' or '['
    let cut = msg.find(|c: char| c == '=' || c == '[').unwrap_or(msg.len());
    msg[..cut].trim().to_string()
}

pub fn replay_typed<T: PT>(v: &Value) -> Result<(), String> {
    let rich = v["rich"].as_bool().unwrap_or(false);
    let al = alphabet(T::N, rich);
    let once = || -> Result<(), String> {
        let mut st: Fam<T> = Fam::new();
        for o in v["history"].as_array().unwrap() {
            st.apply(&parse_op(o.as_str().unwrap())?, &al)?;
        }
        st.check_all(&al)?;
        if let Some(o) = v["op"].as_str() {
            if o == "empty()" { return if T::empty_static_is_empty() { Ok(()) } else { Err("empty() not empty".into()) }; }
            let keep = st.clone();
            st.apply(&parse_op(o)?, &al)?;
            st.check_all(&al)?;
            keep.check_all(&al).map_err(|e| format!("state before the operation changed: {e}"))?;
        }
        Ok(())
    };
    let r1 = once();
    let r2 = once();
    if r1 != r2 { return Err(format!("NONDETERMINISTIC replay: {r1:?} vs {r2:?}")); }
    r1
}

pub fn replay(v: &Value) -> Result<(), String> {
    match v["arity"].as_u64().unwrap_or(99) {
        0 => replay_typed::<PrefixTree0>(v), 1 => replay_typed::<PrefixTree1>(v), 2 => replay_typed::<PrefixTree2>(v),
        3 => replay_typed::<PrefixTree3>(v), 4 => replay_typed::<PrefixTree4>(v), 5 => replay_typed::<PrefixTree5>(v),
        6 => replay_typed::<PrefixTree6>(v), 7 => replay_typed::<PrefixTree7>(v), 8 => replay_typed::<PrefixTree8>(v),
        9 => replay_typed::<PrefixTree9>(v), n => Err(format!("bad arity {n}")),
    }
}

pub struct Config { pub depth_small: usize, pub depth_large: usize, pub state_cap: u64, pub wall_cap_s: u64, pub rich: bool }

pub fn run(cfg: &Config) -> Value {
    // one OS thread per arity: the containers are Rc-based and cannot cross threads
    let results: Vec<ArityResult> = std::thread::scope(|sc| {
        let mut hs = Vec::new();
        macro_rules! go { ($t:ty, $d:expr) => { hs.push(sc.spawn(move || explore::<$t>($d, cfg.state_cap, cfg.wall_cap_s, cfg.rich))); } }
        go!(PrefixTree0, cfg.depth_small.max(8));
        go!(PrefixTree1, cfg.depth_small);
        go!(PrefixTree2, cfg.depth_small);
        if cfg.rich {
            // thorough: additionally the small pool {0,1}^2, which is explored to a fixpoint
            hs.push(sc.spawn(move || explore::<PrefixTree2>(cfg.depth_small, cfg.state_cap, cfg.wall_cap_s, false)));
        }
        go!(PrefixTree3, cfg.depth_large);
        go!(PrefixTree4, cfg.depth_large);
        go!(PrefixTree5, cfg.depth_large);
        go!(PrefixTree6, cfg.depth_large);
        go!(PrefixTree7, cfg.depth_large);
        go!(PrefixTree8, cfg.depth_large);
        go!(PrefixTree9, cfg.depth_large);
        hs.into_iter().map(|h| h.join().expect("explorer thread")).collect()
    });
    let states: u64 = results.iter().map(|r| r.states).sum();
    let transitions: u64 = results.iter().map(|r| r.transitions).sum();
    let mut violations = Vec::new();
    for r in &results { violations.extend(r.violations.iter().cloned()); }
    json!({
        "states": states,
        "transitions": transitions,
        "traces_validated_against_impl": transitions,
        "evaluations": transitions,
        "distinct_nontrivial": results.iter().map(|r| r.nontrivial).sum::<u64>(),
        "rule": "states are distinct Debug renderings of the live family (A, B, S, clone C) reached by operation sequences on the real containers; non-trivial = A and B both non-empty and different",
        "per_arity": results.iter().map(|r| json!({"arity": r.n, "states": r.states, "transitions": r.transitions,
            "depth_completed": r.depth_completed, "fixpoint": r.fixpoint, "capped": r.capped})).collect::<Vec<_>>(),
        "exhaustive": results.iter().all(|r| !r.capped),
        "samples": results.iter().filter(|r| r.n == 2 || r.n == 5 || r.n == 9).map(|r| json!({"arity": r.n, "history": r.sample})).collect::<Vec<_>>(),
        "violations": violations,
    })
}

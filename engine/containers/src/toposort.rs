//! C18 — exhaustive enumeration of morphism graphs and new/old splits for `morphism_toposort`.
use eqlog_runtime::{morphism_toposort, PrefixTree1, PrefixTree2};
use rayon::prelude::*;
use serde_json::{json, Value};
use std::collections::BTreeSet;

const BOT: u32 = u32::MAX;

#[derive(Clone, Debug)]
pub struct Case {
    pub n: u32,
    pub dom: Vec<u32>, // BOT = undefined
    pub cod: Vec<u32>,
    pub dom_new: u32, // bit i: dom entry of morphism i is in the new table
    pub cod_new: u32,
    pub obj_new: u32,
}

impl Case {
    pub fn to_json(&self) -> Value {
        let f = |v: &Vec<u32>| -> Vec<Value> {
            v.iter().map(|&x| if x == BOT { Value::Null } else { json!(x) }).collect()
        };
        json!({"objects": self.n, "dom": f(&self.dom), "cod": f(&self.cod),
               "dom_new_mask": self.dom_new, "cod_new_mask": self.cod_new, "obj_new_mask": self.obj_new})
    }
    pub fn from_json(v: &Value) -> Case {
        let f = |v: &Value| -> Vec<u32> {
            v.as_array().unwrap().iter().map(|x| x.as_u64().map(|x| x as u32).unwrap_or(BOT)).collect()
        };
        Case {
            n: v["objects"].as_u64().unwrap() as u32,
            dom: f(&v["dom"]),
            cod: f(&v["cod"]),
            dom_new: v["dom_new_mask"].as_u64().unwrap() as u32,
            cod_new: v["cod_new_mask"].as_u64().unwrap() as u32,
            obj_new: v["obj_new_mask"].as_u64().unwrap() as u32,
        }
    }
}

/// Own cycle check: does the graph of fully defined morphisms have a directed cycle?
fn has_cycle(n: u32, dom: &[u32], cod: &[u32]) -> bool {
    // repeatedly delete objects without incoming edges from remaining objects
    let mut alive: Vec<bool> = vec![true; n as usize];
    loop {
        let mut changed = false;
        for o in 0..n as usize {
            if !alive[o] {
                continue;
            }
            let has_in = (0..dom.len()).any(|f| {
                dom[f] != BOT && cod[f] != BOT && cod[f] as usize == o && alive[dom[f] as usize]
            });
            if !has_in {
                alive[o] = false;
                changed = true;
            }
        }
        if !changed {
            break;
        }
    }
    alive.iter().any(|&a| a)
}

/// Objects here are numbered 10.., morphisms 0.. — ids of different types may coincide in real
/// models, so a second numbering with overlapping ids is exercised through `obj_base`.
pub fn check_case(c: &Case, obj_base: u32) -> Result<bool, String> {
    let m = c.dom.len();
    let mut dn = PrefixTree2::new();
    let mut dold = PrefixTree2::new();
    let mut cn = PrefixTree2::new();
    let mut cold = PrefixTree2::new();
    let mut on = PrefixTree1::new();
    let mut oold = PrefixTree1::new();
    for f in 0..m {
        if c.dom[f] != BOT {
            let row = [c.dom[f] + obj_base, f as u32];
            if c.dom_new >> f & 1 == 1 { dn.insert(row); } else { dold.insert(row); }
        }
        if c.cod[f] != BOT {
            let row = [f as u32, c.cod[f] + obj_base];
            if c.cod_new >> f & 1 == 1 { cn.insert(row); } else { cold.insert(row); }
        }
    }
    for o in 0..c.n {
        if c.obj_new >> o & 1 == 1 { on.insert([o + obj_base]); } else { oold.insert([o + obj_base]); }
    }
    let res = std::panic::catch_unwind(std::panic::AssertUnwindSafe(|| {
        morphism_toposort(&dn, &dold, &cn, &cold, &oold, &on)
    }));
    let res = match res {
        Ok(r) => r,
        Err(_) => return Err("morphism_toposort panicked".into()),
    };
    let cyc = has_cycle(c.n, &c.dom, &c.cod);
    match res {
        Err(_) => {
            if !cyc {
                return Err("reported a cycle, but the fully defined morphisms are acyclic".into());
            }
            Ok(true)
        }
        Ok(list) => {
            if cyc {
                return Err(format!("returned an order although the morphisms contain a directed cycle: {list:?}"));
            }
            let expect: BTreeSet<(u32, u32, u32)> = (0..m)
                .filter(|&f| c.dom[f] != BOT && c.cod[f] != BOT)
                .map(|f| (f as u32, c.dom[f] + obj_base, c.cod[f] + obj_base))
                .collect();
            let got: Vec<(u32, u32, u32)> = list.iter().map(|x| (x.morph, x.dom, x.cod)).collect();
            let got_set: BTreeSet<(u32, u32, u32)> = got.iter().copied().collect();
            if got.len() != got_set.len() {
                return Err(format!("a morphism is returned more than once: {got:?}"));
            }
            if got_set != expect {
                return Err(format!("returned {got:?}, fully defined morphisms with signatures are {expect:?}"));
            }
            for (i, f) in got.iter().enumerate() {
                for (j, g) in got.iter().enumerate() {
                    if f.2 == g.1 && i >= j {
                        return Err(format!(
                            "morphism {} into object {} does not precede morphism {} out of it: {got:?}",
                            f.0, f.2, g.0
                        ));
                    }
                }
            }
            Ok(false)
        }
    }
}

pub struct Config {
    pub max_n: u32,
    pub max_m: u32,
    pub wall_cap_s: u64,
}

pub fn run(cfg: &Config) -> Value {
    let t0 = std::time::Instant::now();
    let mut graphs_total = 0u64;
    let mut calls_total = 0u64;
    let mut cyclic_graphs = 0u64;
    let mut nontrivial = 0u64;
    let mut violations: Vec<Value> = Vec::new();
    let mut completed: Vec<String> = Vec::new();
    let mut capped = false;
    let mut samples: Vec<Value> = Vec::new();
    // sizes in increasing order so that a cap leaves the small scopes complete
    let mut sizes: Vec<(u32, u32)> = Vec::new();
    for n in 0..=cfg.max_n {
        for m in 0..=cfg.max_m {
            sizes.push((n, m));
        }
    }
    sizes.sort_by_key(|&(n, m)| ((n + 1).pow(2 * m) as u64) << (2 * m + n));
    for (n, m) in sizes {
        if capped {
            break;
        }
        let base = n + 1;
        let ngraphs = (base as u64).pow(2 * m);
        let per_graph: Vec<(u64, u64, u64, Vec<Value>)> = (0..ngraphs)
            .into_par_iter()
            .map(|gi| {
                let mut dom = vec![BOT; m as usize];
                let mut cod = vec![BOT; m as usize];
                let mut x = gi;
                for f in 0..m as usize {
                    let d = (x % base as u64) as u32;
                    x /= base as u64;
                    let c = (x % base as u64) as u32;
                    x /= base as u64;
                    dom[f] = if d == n { BOT } else { d };
                    cod[f] = if c == n { BOT } else { c };
                }
                let mut calls = 0u64;
                let mut cyc = 0u64;
                let mut viol = Vec::new();
                // only splits of defined entries matter; undefined entries have no table row
                let dmask_all: u32 = (0..m).filter(|&f| dom[f as usize] != BOT).map(|f| 1 << f).sum();
                let cmask_all: u32 = (0..m).filter(|&f| cod[f as usize] != BOT).map(|f| 1 << f).sum();
                let mut dmask = dmask_all;
                loop {
                    let mut cmask = cmask_all;
                    loop {
                        for omask in 0..(1u32 << n) {
                            let case = Case { n, dom: dom.clone(), cod: cod.clone(), dom_new: dmask, cod_new: cmask, obj_new: omask };
                            // object ids disjoint from morphism ids, and overlapping ones
                            for obj_base in [10u32, 0u32] {
                                calls += 1;
                                match check_case(&case, obj_base) {
                                    Ok(c) => cyc += c as u64,
                                    Err(msg) => {
                                        if viol.len() < 3 {
                                            let mut r = case.to_json();
                                            r["obj_base"] = json!(obj_base);
                                            r["message"] = json!(msg);
                                            viol.push(json!({"sig": sig_of(&msg), "summary": msg, "replay": r}));
                                        }
                                    }
                                }
                            }
                        }
                        if cmask == 0 { break; }
                        cmask = (cmask - 1) & cmask_all;
                    }
                    if dmask == 0 { break; }
                    dmask = (dmask - 1) & dmask_all;
                }
                let defined = (0..m as usize).filter(|&f| dom[f] != BOT && cod[f] != BOT).count() as u64;
                (calls, (cyc > 0) as u64, (defined >= 2) as u64, viol)
            })
            .collect();
        for (calls, cyc, nt, viol) in per_graph {
            calls_total += calls;
            cyclic_graphs += cyc;
            nontrivial += nt;
            for v in viol {
                if violations.len() < 50 {
                    violations.push(v);
                }
            }
        }
        graphs_total += ngraphs;
        completed.push(format!("n={n},m={m}"));
        if samples.len() < 3 && n >= 2 && m >= 2 {
            samples.push(Case { n, dom: vec![0, 1], cod: vec![1, BOT], dom_new: 1, cod_new: 0, obj_new: 2 }.to_json());
        }
        if t0.elapsed().as_secs() > cfg.wall_cap_s {
            capped = true;
        }
    }
    if samples.is_empty() {
        samples.push(json!("no graph with two morphisms in this scope"));
    }
    json!({
        "evaluations": calls_total,
        "distinct_nontrivial": nontrivial,
        "rule": "every pair of partial maps dom,cod: morphisms -> objects u {undefined} for every scope (objects<=N, morphisms<=M), times every split of the defined dom rows, cod rows and objects into new/old tables, times two id numberings (object ids disjoint from / overlapping morphism ids); a graph is non-trivial when at least two morphisms are fully defined",
        "graphs": graphs_total,
        "cyclic_graphs": cyclic_graphs,
        "scopes_completed": completed,
        "max_objects": cfg.max_n,
        "max_morphisms": cfg.max_m,
        "exhaustive": !capped,
        "samples": samples,
        "violations": violations,
    })
}

fn sig_of(msg: &str) -> String {
    msg.split(|c: char| c == ':' || c == ',').next().unwrap_or("").trim().to_string()
}

pub fn replay(v: &Value) -> Result<(), String> {
    let c = Case::from_json(v);
    let b = v["obj_base"].as_u64().unwrap_or(10) as u32;
    let r1 = check_case(&c, b).map(|_| ());
    let r2 = check_case(&c, b).map(|_| ());
    if r1 != r2 {
        return Err(format!("NONDETERMINISTIC replay: {r1:?} vs {r2:?}"));
    }
    r1
}

//! Engines for the runtime containers: C08 (prefix trees), C14 (weight-balanced map), C18 (toposort).
mod ptree;
mod toposort;
mod unif;
mod wbmap;

use serde_json::{json, Value};

fn arg(args: &[String], name: &str) -> Option<String> {
    args.iter().position(|a| a == name).and_then(|i| args.get(i + 1).cloned())
}

fn main() {
    let args: Vec<String> = std::env::args().collect();
    let prop = args.get(1).cloned().unwrap_or_default();
    let tier = arg(&args, "--tier").unwrap_or_else(|| "quick".into());
    let out = arg(&args, "--out");
    // quiet panics inside catch_unwind (they are reported as violations by the caller)
    std::panic::set_hook(Box::new(|_| {}));
    if let Some(path) = arg(&args, "--replay") {
        let v: Value = serde_json::from_str(&std::fs::read_to_string(&path).expect("replay file")).expect("json");
        let case = if v.get("replay").is_some() { v["replay"].clone() } else { v.clone() };
        let res = match prop.as_str() {
            "C14" => wbmap::replay(&case),
            "C18" => toposort::replay(&case),
            "C08" => ptree::replay(&case),
            "C05" => unif::replay(&case),
            _ => Err("unknown property".into()),
        };
        match res {
            Ok(()) => { println!("REPLAY-OK property={prop} (no violation on this tree)"); std::process::exit(0) }
            Err(m) => { println!("REPLAY-VIOLATION property={prop} {m}"); std::process::exit(1) }
        }
    }
    let thorough = tier == "thorough";
    let envu = |k: &str, d: u64| std::env::var(k).ok().and_then(|s| s.parse().ok()).unwrap_or(d);
    let t0 = std::time::Instant::now();
    let mut res = match prop.as_str() {
        "C14" => {
            if thorough {
                // K=7 with every follow-up and depth-2 clone check, then K=9 union/difference over all pairs
                let a = wbmap::run(&wbmap::Config { k: 7, pairs: true, followups: true, depth2: true, wall_cap_s: envu("VERIF_WALL_CAP", 1500) });
                let b = wbmap::run(&wbmap::Config { k: envu("VERIF_C14_K", 9) as u32, pairs: true, followups: false, depth2: false, wall_cap_s: envu("VERIF_WALL_CAP", 1500) });
                let c = wbmap::run(&wbmap::Config { k: 11, pairs: false, followups: false, depth2: false, wall_cap_s: envu("VERIF_WALL_CAP", 600) });
                let d = wbmap::run_intervals(envu("VERIF_C14_INTERVAL_N", 40) as u32);
                merge(vec![("K=7 full", a), ("K=9 pairs", b), ("K=11 unary", c), ("interval family n<=40", d)])
            } else {
                let a = wbmap::run(&wbmap::Config { k: 6, pairs: true, followups: true, depth2: true, wall_cap_s: 120 });
                let b = wbmap::run(&wbmap::Config { k: 8, pairs: false, followups: false, depth2: false, wall_cap_s: 120 });
                let d = wbmap::run_intervals(envu("VERIF_C14_INTERVAL_N", 20) as u32);
                merge(vec![("K=6 full", a), ("K=8 unary", b), ("interval family n<=20", d)])
            }
        }
        "C05" => unif::run(if thorough { 7 } else { 6 }),
        "C18" => toposort::run(&toposort::Config {
            max_n: if thorough { 4 } else { 3 },
            max_m: if thorough { 4 } else { 3 },
            wall_cap_s: envu("VERIF_WALL_CAP", 1500),
        }),
        "C08" => ptree::run(&ptree::Config {
            depth_small: if thorough { 64 } else { 6 },
            depth_large: if thorough { envu("VERIF_C08_DEPTH", 6) as usize } else { 4 },
            state_cap: envu("VERIF_STATE_CAP", if thorough { 6_000_000 } else { 400_000 }),
            wall_cap_s: envu("VERIF_WALL_CAP", if thorough { 1500 } else { 100 }),
            rich: thorough,
        }),
        _ => { eprintln!("usage: containers C05|C08|C14|C18 --tier quick|thorough --out FILE [--replay FILE]"); std::process::exit(2) }
    };
    res["wall_s"] = json!(t0.elapsed().as_secs_f64());
    let text = serde_json::to_string_pretty(&res).unwrap();
    match out { Some(p) => std::fs::write(p, text).expect("write out"), None => println!("{text}") }
}

/// Merge the coverage of several sub-runs: counts add up, lists concatenate.
fn merge(parts: Vec<(&str, Value)>) -> Value {
    let mut out = json!({"parts": []});
    let sum_keys = ["states", "transitions", "traces_validated_against_impl", "evaluations", "distinct_nontrivial", "depth2_clone_checks"];
    for k in sum_keys { out[k] = json!(0u64); }
    let mut samples = Vec::new();
    let mut violations = Vec::new();
    let mut exhaustive = true;
    for (name, p) in parts {
        for k in sum_keys { out[k] = json!(out[k].as_u64().unwrap() + p[k].as_u64().unwrap_or(0)); }
        if let Some(a) = p["samples"].as_array() { samples.extend(a.iter().cloned()); }
        if let Some(a) = p["violations"].as_array() { violations.extend(a.iter().cloned()); }
        exhaustive &= p["exhaustive"].as_bool().unwrap_or(false);
        out["rule"] = p["rule"].clone();
        let mut q = p.clone();
        q.as_object_mut().unwrap().remove("samples");
        q.as_object_mut().unwrap().remove("violations");
        q["part"] = json!(name);
        out["parts"].as_array_mut().unwrap().push(q);
    }
    out["samples"] = json!(samples);
    out["violations"] = json!(violations);
    out["exhaustive"] = json!(exhaustive);
    out
}

//! C14 — explicit-state exploration of the weight-balanced map.
//!
//! State  = exact tree shape (pre-order list of (key, cached size, has-left, has-right)); values are
//!          not part of the key: the map code is parametric in `V: Clone` and cannot inspect them, so
//!          two maps of the same shape have the same futures up to values.
//! Moves  = every unary operation of the public API for every key of the universe, and
//!          union/difference for every ordered pair of reachable shapes; run to a fixpoint.
//! Oracle = std BTreeMap after every operation on every live map, exact len, callback argument
//!          order, BST order, cached sizes, the repository's own weight-balance predicate, height
//!          bound, and "a clone taken earlier is untouched" (shape and content).
use eqlog_runtime::wbtree::map::{Entry, WBTreeMap};
use rayon::prelude::*;
use serde_json::{json, Value};
use std::collections::{BTreeMap, HashMap};
use std::sync::atomic::{AtomicU64, Ordering};
use std::sync::Mutex;

pub type Shape = Vec<(u32, usize, bool, bool)>;
type Map = WBTreeMap<u64>;
type Ref = BTreeMap<u32, u64>;

#[derive(Clone, Copy, Debug, PartialEq, Eq, Hash)]
pub enum UOp {
    Insert(u32),
    Remove(u32),
    GetMutWrite(u32),
    EntryOrInsert(u32),
    EntryOrInsertWith(u32),
    EntryMatchMut(u32),  // Occupied: get_mut + write ; Vacant: insert
    EntryMatchInto(u32), // Occupied: into_mut + write ; Vacant: insert
    EntryMatchRemove(u32), // Occupied: remove ; Vacant: nothing
    IterMutWrite,
    IterMutPartial(u32), // iterate mutably, write only while key < k, stop early at k
    Clear,
}

#[derive(Clone, Debug)]
pub enum Expr {
    Empty,
    Unary(Box<Expr>, UOp),
    Union(Box<Expr>, Box<Expr>),
    Diff(Box<Expr>, Box<Expr>, u8),
}

impl Expr {
    pub fn to_json(&self) -> Value {
        match self {
            Expr::Empty => json!("empty"),
            Expr::Unary(e, op) => json!({"then": format!("{:?}", op), "on": e.to_json()}),
            Expr::Union(a, b) => json!({"union": [a.to_json(), b.to_json()]}),
            Expr::Diff(a, b, v) => json!({"difference": [a.to_json(), b.to_json()], "variant": v}),
        }
    }
    pub fn from_json(v: &Value) -> Result<Expr, String> {
        if v == "empty" {
            return Ok(Expr::Empty);
        }
        if let Some(t) = v.get("then") {
            let e = Expr::from_json(&v["on"])?;
            return Ok(Expr::Unary(Box::new(e), parse_uop(t.as_str().ok_or("then")?)?));
        }
        if let Some(u) = v.get("union") {
            return Ok(Expr::Union(
                Box::new(Expr::from_json(&u[0])?),
                Box::new(Expr::from_json(&u[1])?),
            ));
        }
        if let Some(u) = v.get("difference") {
            return Ok(Expr::Diff(
                Box::new(Expr::from_json(&u[0])?),
                Box::new(Expr::from_json(&u[1])?),
                v["variant"].as_u64().ok_or("variant")? as u8,
            ));
        }
        Err(format!("bad expr {v}"))
    }
}

pub fn parse_uop(s: &str) -> Result<UOp, String> {
    let (name, arg) = match s.find('(') {
        Some(i) => (&s[..i], s[i + 1..s.len() - 1].parse::<u32>().ok()),
        None => (s, None),
    };
    let a = || arg.ok_or_else(|| format!("missing arg in {s}"));
    Ok(match name {
        "Insert" => UOp::Insert(a()?),
        "Remove" => UOp::Remove(a()?),
        "GetMutWrite" => UOp::GetMutWrite(a()?),
        "EntryOrInsert" => UOp::EntryOrInsert(a()?),
        "EntryOrInsertWith" => UOp::EntryOrInsertWith(a()?),
        "EntryMatchMut" => UOp::EntryMatchMut(a()?),
        "EntryMatchInto" => UOp::EntryMatchInto(a()?),
        "EntryMatchRemove" => UOp::EntryMatchRemove(a()?),
        "IterMutWrite" => UOp::IterMutWrite,
        "IterMutPartial" => UOp::IterMutPartial(a()?),
        "Clear" => UOp::Clear,
        _ => return Err(format!("unknown op {s}")),
    })
}

fn all_uops(k: u32) -> Vec<UOp> {
    let mut v = Vec::new();
    for key in 0..k {
        v.push(UOp::Insert(key));
    }
    for key in 0..k {
        v.push(UOp::Remove(key));
    }
    for key in 0..k {
        v.push(UOp::GetMutWrite(key));
        v.push(UOp::EntryOrInsert(key));
        v.push(UOp::EntryOrInsertWith(key));
        v.push(UOp::EntryMatchMut(key));
        v.push(UOp::EntryMatchInto(key));
        v.push(UOp::EntryMatchRemove(key));
        v.push(UOp::IterMutPartial(key));
    }
    v.push(UOp::IterMutWrite);
    v.push(UOp::Clear);
    v
}

/// Mutations used as follow-ups on results that share structure with other live maps.
fn followup_uops(k: u32) -> Vec<UOp> {
    let mut v = Vec::new();
    for key in 0..k {
        v.push(UOp::Insert(key));
        v.push(UOp::Remove(key));
        v.push(UOp::GetMutWrite(key));
        v.push(UOp::EntryMatchMut(key));
    }
    v.push(UOp::IterMutWrite);
    v
}

const WRITE_BUMP: u64 = 500;

/// Apply `op` to the implementation and to the reference, compare all return values.
fn apply_uop(m: &mut Map, r: &mut Ref, op: UOp, base: u64) -> Result<(), String> {
    let val = |k: u32| base + k as u64;
    match op {
        UOp::Insert(k) => {
            let a = m.insert(k, val(k));
            let b = r.insert(k, val(k));
            if a != b {
                return Err(format!("insert({k}) returned {a:?}, reference {b:?}"));
            }
        }
        UOp::Remove(k) => {
            let a = m.remove(&k);
            let b = r.remove(&k);
            if a != b {
                return Err(format!("remove({k}) returned {a:?}, reference {b:?}"));
            }
        }
        UOp::GetMutWrite(k) => {
            let a = m.get_mut(&k);
            let b = r.get_mut(&k);
            match (a, b) {
                (None, None) => {}
                (Some(x), Some(y)) => {
                    if *x != *y {
                        return Err(format!("get_mut({k}) saw {x}, reference {y}"));
                    }
                    *x += WRITE_BUMP;
                    *y += WRITE_BUMP;
                }
                (a, b) => {
                    return Err(format!(
                        "get_mut({k}) is_some={}, reference is_some={}",
                        a.is_some(),
                        b.is_some()
                    ))
                }
            }
        }
        UOp::EntryOrInsert(k) => {
            let x = m.entry(k).or_insert(val(k) + 7);
            let y = r.entry(k).or_insert(val(k) + 7);
            if *x != *y {
                return Err(format!("entry({k}).or_insert saw {x}, reference {y}"));
            }
            *x += 1;
            *y += 1;
        }
        UOp::EntryOrInsertWith(k) => {
            let mut called_a = false;
            let mut called_b = false;
            let x = m.entry(k).or_insert_with(|| {
                called_a = true;
                val(k) + 9
            });
            let y = r.entry(k).or_insert_with(|| {
                called_b = true;
                val(k) + 9
            });
            if *x != *y {
                return Err(format!("entry({k}).or_insert_with saw {x}, reference {y}"));
            }
            *x += 1;
            *y += 1;
            if called_a != called_b {
                return Err(format!(
                    "entry({k}).or_insert_with called default: {called_a}, reference {called_b}"
                ));
            }
        }
        UOp::EntryMatchMut(k) | UOp::EntryMatchInto(k) | UOp::EntryMatchRemove(k) => {
            let present = r.contains_key(&k);
            match m.entry(k) {
                Entry::Occupied(mut occ) => {
                    if !present {
                        return Err(format!("entry({k}) Occupied, reference has no such key"));
                    }
                    match op {
                        UOp::EntryMatchMut(_) => {
                            let x = occ.get_mut();
                            let y = r.get_mut(&k).unwrap();
                            if *x != *y {
                                return Err(format!("occupied.get_mut({k}) saw {x}, reference {y}"));
                            }
                            *x += 3;
                            *y += 3;
                        }
                        UOp::EntryMatchInto(_) => {
                            let x = occ.into_mut();
                            let y = r.get_mut(&k).unwrap();
                            if *x != *y {
                                return Err(format!("occupied.into_mut({k}) saw {x}, reference {y}"));
                            }
                            *x += 5;
                            *y += 5;
                        }
                        _ => {
                            let x = occ.remove();
                            let y = r.remove(&k).unwrap();
                            if x != y {
                                return Err(format!("occupied.remove({k}) returned {x}, reference {y}"));
                            }
                        }
                    }
                }
                Entry::Vacant(vac) => {
                    if present {
                        return Err(format!("entry({k}) Vacant, reference has the key"));
                    }
                    if !matches!(op, UOp::EntryMatchRemove(_)) {
                        let x = vac.insert(val(k) + 11);
                        r.insert(k, val(k) + 11);
                        if *x != val(k) + 11 {
                            return Err(format!("vacant.insert({k}) returned a reference to {x}"));
                        }
                        *x += 1;
                        *r.get_mut(&k).unwrap() += 1;
                    }
                }
            }
        }
        UOp::IterMutWrite => {
            let mut seen = Vec::new();
            for (k, v) in m.iter_mut() {
                seen.push((k, *v));
                *v += WRITE_BUMP;
            }
            let expect: Vec<(u32, u64)> = r.iter().map(|(k, v)| (*k, *v)).collect();
            if seen != expect {
                return Err(format!("iter_mut yielded {seen:?}, reference {expect:?}"));
            }
            for v in r.values_mut() {
                *v += WRITE_BUMP;
            }
        }
        UOp::IterMutPartial(stop) => {
            let mut seen = Vec::new();
            for (k, v) in m.iter_mut() {
                if k >= stop {
                    break;
                }
                seen.push((k, *v));
                *v += 2;
            }
            let expect: Vec<(u32, u64)> =
                r.range(..stop).map(|(k, v)| (*k, *v)).collect();
            if seen != expect {
                return Err(format!("iter_mut (stopped at {stop}) yielded {seen:?}, reference {expect:?}"));
            }
            for (_, v) in r.range_mut(..stop) {
                *v += 2;
            }
        }
        UOp::Clear => {
            m.clear();
            r.clear();
        }
    }
    Ok(())
}

fn merge_fn(k: &u32, l: u64, r: u64) -> u64 {
    l.wrapping_mul(1_000_003).wrapping_add(r.wrapping_mul(7)).wrapping_add(*k as u64)
}

/// diff callback variants; each makes the (left, right) order observable when it keeps a value.
fn diff_fn(variant: u8, k: &u32, l: u64, r: u64) -> Option<u64> {
    match variant {
        0 => None,
        1 => match k % 3 {
            0 => None,
            1 => Some(l.wrapping_mul(1_000_003).wrapping_add(r)),
            _ => Some(l),
        },
        _ => Some(l.wrapping_mul(31).wrapping_add(r.wrapping_mul(3))),
    }
}

fn ref_union(a: &Ref, b: &Ref) -> Ref {
    let mut out = a.clone();
    for (k, rv) in b {
        match out.get(k).copied() {
            Some(lv) => {
                out.insert(*k, merge_fn(k, lv, *rv));
            }
            None => {
                out.insert(*k, *rv);
            }
        }
    }
    out
}

fn ref_diff(a: &Ref, b: &Ref, variant: u8) -> Ref {
    let mut out = Ref::new();
    for (k, lv) in a {
        match b.get(k) {
            None => {
                out.insert(*k, *lv);
            }
            Some(rv) => {
                if let Some(v) = diff_fn(variant, k, *lv, *rv) {
                    out.insert(*k, v);
                }
            }
        }
    }
    out
}

fn impl_union(a: &Map, b: &Map) -> Map {
    a.union(b, |k, l, r| merge_fn(k, l, r))
}
fn impl_diff(a: &Map, b: &Map, variant: u8) -> Map {
    a.difference(b, |k, l, r| diff_fn(variant, k, l, r))
}

/// The balance parameter the repository documents (`const DELTA` in wbtree/map.rs, read from the
/// source by the driver and passed in VERIF_WB_DELTA; 3 at the time of writing).
fn delta() -> usize {
    std::env::var("VERIF_WB_DELTA").ok().and_then(|s| s.parse().ok()).filter(|d| *d >= 2).unwrap_or(3)
}

/// ceil(log_{(D+1)/D}(n+1)) computed in integers: smallest h with ((D+1)/D)^h >= n+1. A node whose
/// children's weights are within a factor D of each other has weight >= (D+1)/D times each child's.
fn height_bound(n: usize) -> usize {
    let d = delta() as f64;
    let mut h = 0usize;
    let mut x = 1.0f64;
    while x < (n as f64 + 1.0) {
        x *= (d + 1.0) / d;
        h += 1;
    }
    h
}

/// Structural invariants from the shape alone. Returns (in-order keys, height).
pub fn check_shape(shape: &Shape) -> Result<(Vec<u32>, usize), String> {
    fn go(
        shape: &Shape,
        pos: &mut usize,
        keys: &mut Vec<u32>,
    ) -> Result<(usize, usize), String> {
        // returns (size, height) of the subtree starting at *pos
        let (key, size, hl, hr) = shape[*pos];
        if key == u32::MAX {
            return Err("mapping node in a tree built without mapped()".into());
        }
        *pos += 1;
        let (ls, lh) = if hl { go(shape, pos, keys)? } else { (0, 0) };
        keys.push(key);
        let (rs, rh) = if hr { go(shape, pos, keys)? } else { (0, 0) };
        if size != 1 + ls + rs {
            return Err(format!("cached size {size} at key {key}, actual {}", 1 + ls + rs));
        }
        if ls + rs >= 2 {
            let (lw, rw) = (ls + 1, rs + 1);
            if rw > delta() * lw || lw > delta() * rw {
                return Err(format!(
                    "weight balance violated at key {key}: left size {ls}, right size {rs}"
                ));
            }
        }
        Ok((size, 1 + lh.max(rh)))
    }
    if shape.is_empty() {
        return Ok((vec![], 0));
    }
    let mut pos = 0;
    let mut keys = Vec::new();
    let (size, height) = go(shape, &mut pos, &mut keys)?;
    if pos != shape.len() {
        return Err("shape has trailing nodes".into());
    }
    for w in keys.windows(2) {
        if w[0] >= w[1] {
            return Err(format!("search-tree order violated: {} before {}", w[0], w[1]));
        }
    }
    if height > height_bound(size) {
        return Err(format!("height {height} exceeds bound {} for size {size}", height_bound(size)));
    }
    Ok((keys, height))
}

/// Full agreement of one live map with its reference.
pub fn check_map(m: &Map, r: &Ref, k: u32) -> Result<Shape, String> {
    let shape = m.verif_shape();
    let (keys, _) = check_shape(&shape)?;
    let rkeys: Vec<u32> = r.keys().copied().collect();
    if keys != rkeys {
        return Err(format!("keys in tree {keys:?}, reference {rkeys:?}"));
    }
    if m.len() != r.len() {
        return Err(format!("len() = {}, reference {}", m.len(), r.len()));
    }
    if m.is_empty() != r.is_empty() {
        return Err(format!("is_empty() = {}, reference {}", m.is_empty(), r.is_empty()));
    }
    let it: Vec<(u32, u64)> = m.iter().map(|(k, v)| (k, *v)).collect();
    let rt: Vec<(u32, u64)> = r.iter().map(|(k, v)| (*k, *v)).collect();
    if it != rt {
        return Err(format!("iter() = {it:?}, reference {rt:?}"));
    }
    for key in 0..k + 1 {
        if m.get(&key) != r.get(&key) {
            return Err(format!("get({key}) = {:?}, reference {:?}", m.get(&key), r.get(&key)));
        }
        if m.contains_key(&key) != r.contains_key(&key) {
            return Err(format!("contains_key({key}) disagrees with reference"));
        }
    }
    Ok(shape)
}

pub fn eval_expr(e: &Expr, base: u64) -> Result<(Map, Ref), String> {
    match e {
        Expr::Empty => Ok((Map::new(), Ref::new())),
        Expr::Unary(p, op) => {
            let (mut m, mut r) = eval_expr(p, base)?;
            apply_uop(&mut m, &mut r, *op, base)?;
            Ok((m, r))
        }
        Expr::Union(a, b) => {
            let (ma, ra) = eval_expr(a, base)?;
            let (mb, rb) = eval_expr(b, base + 100_000)?;
            Ok((impl_union(&ma, &mb), ref_union(&ra, &rb)))
        }
        Expr::Diff(a, b, v) => {
            let (ma, ra) = eval_expr(a, base)?;
            let (mb, rb) = eval_expr(b, base + 100_000)?;
            Ok((impl_diff(&ma, &mb, *v), ref_diff(&ra, &rb, *v)))
        }
    }
}

#[derive(Clone, Debug)]
enum Origin {
    Init,
    Unary(usize, UOp),
    Union(usize, usize),
    Diff(usize, usize, u8),
}

struct Table {
    shapes: Vec<Shape>,
    origins: Vec<Origin>,
    index: HashMap<Shape, usize>,
}

impl Table {
    fn expr(&self, id: usize) -> Expr {
        match &self.origins[id] {
            Origin::Init => Expr::Empty,
            Origin::Unary(p, op) => Expr::Unary(Box::new(self.expr(*p)), *op),
            Origin::Union(a, b) => Expr::Union(Box::new(self.expr(*a)), Box::new(self.expr(*b))),
            Origin::Diff(a, b, v) => {
                Expr::Diff(Box::new(self.expr(*a)), Box::new(self.expr(*b)), *v)
            }
        }
    }
    fn add(&mut self, shape: Shape, origin: Origin) -> Option<usize> {
        if self.index.contains_key(&shape) {
            return None;
        }
        let id = self.shapes.len();
        self.index.insert(shape.clone(), id);
        self.shapes.push(shape);
        self.origins.push(origin);
        Some(id)
    }
}

#[derive(Clone, Debug)]
pub struct Violation {
    pub sig: String,
    pub summary: String,
    pub replay: Value,
}

pub struct Config {
    pub k: u32,
    pub pairs: bool,
    pub followups: bool,
    pub depth2: bool,
    pub wall_cap_s: u64,
}

/// One unary step from `expr` checked completely. Returns the successor shape.
fn check_unary_step(expr: &Expr, op: UOp, k: u32) -> Result<Shape, String> {
    let (mut m, mut r) = eval_expr(expr, 1000)?;
    let before_shape = check_map(&m, &r, k).map_err(|e| format!("before the operation: {e}"))?;
    let c = m.clone();
    let r_before = r.clone();
    apply_uop(&mut m, &mut r, op, 1000)?;
    let shape = check_map(&m, &r, k)?;
    let cs = check_map(&c, &r_before, k)
        .map_err(|e| format!("clone taken before the operation changed: {e}"))?;
    if cs != before_shape {
        return Err("clone taken before the operation changed shape".into());
    }
    Ok(shape)
}

fn check_depth2(expr: &Expr, op1: UOp, op2: UOp, k: u32) -> Result<(), String> {
    let (mut m, mut r) = eval_expr(expr, 1000)?;
    let c = m.clone();
    let r_before = r.clone();
    let before_shape = c.verif_shape();
    apply_uop(&mut m, &mut r, op1, 1000)?;
    let c2 = m.clone();
    let r_mid = r.clone();
    apply_uop(&mut m, &mut r, op2, 2000)?;
    check_map(&m, &r, k)?;
    let cs = check_map(&c, &r_before, k)
        .map_err(|e| format!("clone taken two operations earlier changed: {e}"))?;
    if cs != before_shape {
        return Err("clone taken two operations earlier changed shape".into());
    }
    check_map(&c2, &r_mid, k).map_err(|e| format!("clone taken one operation earlier changed: {e}"))?;
    Ok(())
}

#[derive(Clone, Copy, Debug)]
enum BinOp {
    Union,
    Diff(u8),
}

/// union/difference of two maps plus (optionally) every follow-up mutation of the result,
/// checking result and operands. Returns result shape.
fn check_pair(
    a: &(Map, Ref),
    b: &(Map, Ref),
    a_shape: &Shape,
    b_shape: &Shape,
    bop: BinOp,
    followups: &[UOp],
    k: u32,
) -> Result<Shape, (String, Option<UOp>)> {
    let compute = || -> (Map, Ref) {
        match bop {
            BinOp::Union => (impl_union(&a.0, &b.0), ref_union(&a.1, &b.1)),
            BinOp::Diff(v) => (impl_diff(&a.0, &b.0, v), ref_diff(&a.1, &b.1, v)),
        }
    };
    let operands_intact = |what: &str| -> Result<(), String> {
        let sa = check_map(&a.0, &a.1, k).map_err(|e| format!("left operand changed {what}: {e}"))?;
        if &sa != a_shape {
            return Err(format!("left operand changed shape {what}"));
        }
        let sb = check_map(&b.0, &b.1, k).map_err(|e| format!("right operand changed {what}: {e}"))?;
        if &sb != b_shape {
            return Err(format!("right operand changed shape {what}"));
        }
        Ok(())
    };
    let (m, r) = compute();
    let shape = check_map(&m, &r, k).map_err(|e| (e, None))?;
    operands_intact("by the operation").map_err(|e| (e, None))?;
    for &f in followups {
        let (mut m2, mut r2) = compute();
        apply_uop(&mut m2, &mut r2, f, 5000).map_err(|e| (e, Some(f)))?;
        check_map(&m2, &r2, k).map_err(|e| (e, Some(f)))?;
        operands_intact("by a mutation of the result").map_err(|e| (e, Some(f)))?;
        // the first result must be independent of the second one too
        check_map(&m, &r, k).map_err(|e| (format!("earlier result changed: {e}"), Some(f)))?;
    }
    Ok(shape)
}

pub fn run(cfg: &Config) -> Value {
    let t0 = std::time::Instant::now();
    let k = cfg.k;
    let uops = all_uops(k);
    let fups = if cfg.followups { followup_uops(k) } else { vec![UOp::IterMutWrite] };
    let mut table = Table { shapes: vec![], origins: vec![], index: HashMap::new() };
    table.add(vec![], Origin::Init);
    let violations: Mutex<Vec<Violation>> = Mutex::new(Vec::new());
    let transitions = AtomicU64::new(0);
    let evaluations = AtomicU64::new(0);
    let mut capped = false;
    let mut unary_done = 0usize; // states whose unary successors are explored
    let mut pair_done = 0usize; // all pairs among states < pair_done are explored
    let mut rounds = 0;
    let mut max_height = 0usize;
    let mut depth2_checked = 0u64;
    let push_violation = |sig: String, summary: String, replay: Value| {
        let mut v = violations.lock().unwrap();
        if v.len() < 50 {
            v.push(Violation { sig, summary, replay });
        }
    };

    loop {
        // ---- unary closure -------------------------------------------------
        while unary_done < table.shapes.len() {
            let lo = unary_done;
            let hi = table.shapes.len();
            let exprs: Vec<Expr> = (lo..hi).map(|i| table.expr(i)).collect();
            let results: Vec<Vec<(UOp, Shape)>> = exprs
                .par_iter()
                .map(|e| {
                    let mut out = Vec::new();
                    for &op in &uops {
                        transitions.fetch_add(1, Ordering::Relaxed);
                        match check_unary_step(e, op, k) {
                            Ok(shape) => out.push((op, shape)),
                            Err(msg) => push_violation(
                                format!("unary:{:?}", op_kind(op)),
                                msg.clone(),
                                json!({"kind":"unary","k":k,"state":e.to_json(),"op":format!("{:?}",op),"message":msg}),
                            ),
                        }
                    }
                    out
                })
                .collect();
            for (i, succ) in results.into_iter().enumerate() {
                for (op, shape) in succ {
                    table.add(shape, Origin::Unary(lo + i, op));
                }
            }
            unary_done = hi;
            if t0.elapsed().as_secs() > cfg.wall_cap_s {
                capped = true;
                break;
            }
        }
        if capped {
            break;
        }
        // ---- depth-2 clone independence -------------------------------------
        if cfg.depth2 && rounds == 0 {
            let exprs: Vec<Expr> = (0..table.shapes.len()).map(|i| table.expr(i)).collect();
            let n: u64 = exprs
                .par_iter()
                .map(|e| {
                    let mut n = 0u64;
                    for &op1 in &uops {
                        for &op2 in &fups {
                            n += 1;
                            if let Err(msg) = check_depth2(e, op1, op2, k) {
                                push_violation(
                                    format!("depth2:{:?}:{:?}", op_kind(op1), op_kind(op2)),
                                    msg.clone(),
                                    json!({"kind":"depth2","k":k,"state":e.to_json(),"op1":format!("{:?}",op1),"op2":format!("{:?}",op2),"message":msg}),
                                );
                            }
                        }
                    }
                    n
                })
                .sum();
            depth2_checked += n;
            transitions.fetch_add(2 * n, Ordering::Relaxed);
        }
        if !cfg.pairs {
            break;
        }
        // ---- binary operations over all ordered pairs with a new member ------
        let n = table.shapes.len();
        if pair_done == n {
            break;
        }
        rounds += 1;
        let exprs: Vec<Expr> = (0..n).map(|i| table.expr(i)).collect();
        let shapes = &table.shapes;
        let index = &table.index;
        let binops = [BinOp::Union, BinOp::Diff(0), BinOp::Diff(1), BinOp::Diff(2)];
        let pd = pair_done;
        let new_shapes: Vec<(Shape, Origin)> = (0..n)
            .into_par_iter()
            .map_init(
                || -> Vec<Option<(Map, Ref)>> { (0..n).map(|_| None).collect() },
                |cache_b, ai| {
                    let mut found: Vec<(Shape, Origin)> = Vec::new();
                    let mut local_seen: std::collections::HashSet<Shape> = std::collections::HashSet::new();
                    let mut a = eval_expr(&exprs[ai], 1000).expect("state replays");
                    let b_lo = if ai < pd { pd } else { 0 };
                    for bi in b_lo..n {
                        if cache_b[bi].is_none() {
                            cache_b[bi] = Some(eval_expr(&exprs[bi], 200_000).expect("state replays"));
                        }
                        for &bop in &binops {
                            transitions.fetch_add(1 + fups.len() as u64, Ordering::Relaxed);
                            let b = cache_b[bi].as_ref().unwrap();
                            match check_pair(&a, b, &shapes[ai], &shapes[bi], bop, &fups, k) {
                                Ok(shape) => {
                                    if index.contains_key(&shape) || !local_seen.insert(shape.clone()) {
                                        continue;
                                    }
                                    let origin = match bop {
                                        BinOp::Union => Origin::Union(ai, bi),
                                        BinOp::Diff(v) => Origin::Diff(ai, bi, v),
                                    };
                                    found.push((shape, origin));
                                }
                                Err((msg, fup)) => {
                                    push_violation(
                                        format!("{:?}:{}", bop, fup.map(|f| format!("{:?}", op_kind(f))).unwrap_or_default()),
                                        msg.clone(),
                                        json!({"kind":"pair","k":k,"left":exprs[ai].to_json(),"right":exprs[bi].to_json(),
                                               "op":format!("{:?}",bop),"followup":fup.map(|f|format!("{:?}",f)),"message":msg}),
                                    );
                                    // operands may be corrupted: rebuild them
                                    a = eval_expr(&exprs[ai], 1000).expect("state replays");
                                    cache_b[bi] = None;
                                    if cache_b[bi].is_none() {
                                        cache_b[bi] = Some(eval_expr(&exprs[bi], 200_000).expect("state replays"));
                                    }
                                }
                            }
                        }
                    }
                    // keep only shapes that are not known yet (cheap pre-filter is done by caller)
                    found
                },
            )
            .reduce(Vec::new, |mut x, mut y| {
                // dedupe aggressively to bound memory
                x.append(&mut y);
                if x.len() > 1_000_000 {
                    let mut seen = std::collections::HashSet::new();
                    x.retain(|(s, _)| seen.insert(s.clone()));
                }
                x
            });
        pair_done = n;
        for (shape, origin) in new_shapes {
            table.add(shape, origin);
        }
        if t0.elapsed().as_secs() > cfg.wall_cap_s {
            capped = true;
            break;
        }
    }

    // read-only sweep & statistics
    for s in &table.shapes {
        if let Ok((_, h)) = check_shape(s) {
            max_height = max_height.max(h);
        }
    }
    evaluations.fetch_add(transitions.load(Ordering::Relaxed), Ordering::Relaxed);
    let sizes: BTreeMap<usize, usize> = table.shapes.iter().fold(BTreeMap::new(), |mut m, s| {
        *m.entry(s.len()).or_default() += 1;
        m
    });
    let samples: Vec<Value> = [1usize, table.shapes.len() / 2, table.shapes.len() - 1]
        .iter()
        .filter(|&&i| i < table.shapes.len())
        .map(|&i| json!({"state": table.expr(i).to_json(), "shape": format!("{:?}", table.shapes[i])}))
        .collect();
    let viol = violations.into_inner().unwrap();
    json!({
        "states": table.shapes.len(),
        "transitions": transitions.load(Ordering::Relaxed),
        "traces_validated_against_impl": transitions.load(Ordering::Relaxed),
        "evaluations": evaluations.load(Ordering::Relaxed),
        "distinct_nontrivial": table.shapes.iter().filter(|s| s.len() >= 3).count(),
        "rule": "states are distinct tree shapes reached by the real WBTreeMap; non-trivial = at least 3 nodes (a rotation can have happened)",
        "key_universe": k,
        "shapes_by_size": sizes.iter().map(|(k,v)| (k.to_string(), json!(v))).collect::<serde_json::Map<String,Value>>(),
        "max_height_seen": max_height,
        "pair_rounds": rounds,
        "pairs_explored": cfg.pairs,
        "followup_mutations_per_pair": if cfg.pairs { fups.len() } else { 0 },
        "depth2_clone_checks": depth2_checked,
        "fixpoint_reached": !capped,
        "exhaustive": !capped,
        "samples": samples,
        "violations": viol.iter().map(|v| json!({"sig": v.sig, "summary": v.summary, "replay": v.replay})).collect::<Vec<_>>(),
    })
}

fn op_kind(op: UOp) -> &'static str {
    match op {
        UOp::Insert(_) => "Insert",
        UOp::Remove(_) => "Remove",
        UOp::GetMutWrite(_) => "GetMutWrite",
        UOp::EntryOrInsert(_) => "EntryOrInsert",
        UOp::EntryOrInsertWith(_) => "EntryOrInsertWith",
        UOp::EntryMatchMut(_) => "EntryMatchMut",
        UOp::EntryMatchInto(_) => "EntryMatchInto",
        UOp::EntryMatchRemove(_) => "EntryMatchRemove",
        UOp::IterMutWrite => "IterMutWrite",
        UOp::IterMutPartial(_) => "IterMutPartial",
        UOp::Clear => "Clear",
    }
}

/// Re-execute one recorded violation (twice) without the explorer.
pub fn replay(v: &Value) -> Result<(), String> {
    let k = v["k"].as_u64().unwrap_or(8) as u32;
    let once = || -> Result<(), String> {
        match v["kind"].as_str().unwrap_or("") {
            "unary" => {
                let e = Expr::from_json(&v["state"])?;
                check_unary_step(&e, parse_uop(v["op"].as_str().unwrap())?, k).map(|_| ())
            }
            "depth2" => {
                let e = Expr::from_json(&v["state"])?;
                check_depth2(
                    &e,
                    parse_uop(v["op1"].as_str().unwrap())?,
                    parse_uop(v["op2"].as_str().unwrap())?,
                    k,
                )
            }
            "pair" => {
                let ea = Expr::from_json(&v["left"])?;
                let eb = Expr::from_json(&v["right"])?;
                let a = eval_expr(&ea, 1000)?;
                let b = eval_expr(&eb, 200_000)?;
                let sa = a.0.verif_shape();
                let sb = b.0.verif_shape();
                let bop = match v["op"].as_str().unwrap() {
                    "Union" => BinOp::Union,
                    s => BinOp::Diff(s.trim_start_matches("Diff(").trim_end_matches(')').parse().map_err(|_| "variant")?),
                };
                let f: Vec<UOp> = match v["followup"].as_str() {
                    Some(s) => vec![parse_uop(s)?],
                    None => vec![],
                };
                check_pair(&a, &b, &sa, &sb, bop, &f, k).map(|_| ()).map_err(|e| e.0)
            }
            "interval" => {
                let n = v["n"].as_u64().unwrap_or(0) as u32;
                let order: Vec<u32> = match v["order"].as_str().unwrap_or("") {
                    "descending" => (0..n).rev().collect(),
                    "inside-out" => { let mut o = Vec::new(); let (mut lo, mut hi) = (n as i64 / 2 - 1, n as i64 / 2); while lo >= 0 || hi < n as i64 { if hi < n as i64 { o.push(hi as u32); hi += 1; } if lo >= 0 { o.push(lo as u32); lo -= 1; } } o }
                    "outside-in" => { let mut o = Vec::new(); let (mut lo, mut hi) = (0i64, n as i64 - 1); while lo <= hi { o.push(lo as u32); if hi != lo { o.push(hi as u32); } lo += 1; hi -= 1; } o }
                    _ => (0..n).collect(),
                };
                let bkeys: Vec<u32> = v["operand_keys"].as_array().map(|a| a.iter().map(|x| x.as_u64().unwrap() as u32).collect()).unwrap_or_default();
                let build = |keys: &[u32], base: u64| -> (Map, Ref) { let mut m = Map::new(); let mut r = Ref::new(); for &k in keys { m.insert(k, base + k as u64); r.insert(k, base + k as u64); } (m, r) };
                let a = build(&order, 1000);
                let b = build(&bkeys, 200_000);
                let (sa, sb) = (a.0.verif_shape(), b.0.verif_shape());
                let bop = match v["op"].as_str().unwrap_or("") {
                    "Union" => BinOp::Union,
                    s if s.starts_with("Diff(") => BinOp::Diff(s.trim_start_matches("Diff(").trim_end_matches(')').parse().map_err(|_| "variant")?),
                    _ => {
                        // removal sequence
                        let (mut m, mut r) = build(&order, 1000);
                        for k in &bkeys { m.remove(k); r.remove(k); check_map(&m, &r, n)?; }
                        let (mut m, mut r) = build(&order, 1000);
                        for k in bkeys.iter().rev() { m.remove(k); r.remove(k); check_map(&m, &r, n)?; }
                        return Ok(());
                    }
                };
                if v["direction"].as_str() == Some("operand op map") { check_pair(&b, &a, &sb, &sa, bop, &[], n).map(|_| ()).map_err(|e| e.0) }
                else { check_pair(&a, &b, &sa, &sb, bop, &[], n).map(|_| ()).map_err(|e| e.0) }
            }
            other => Err(format!("unknown replay kind {other}")),
        }
    };
    let r1 = once();
    let r2 = once();
    if r1 != r2 {
        return Err(format!("NONDETERMINISTIC replay: {r1:?} vs {r2:?}"));
    }
    r1
}


/// Larger maps than the shape search can reach: for every n <= max_n, maps built in a few canonical
/// insertion orders over keys 0..n against every "interval-like" operand (all intervals [i, j), their
/// complements, all strides), for union and the three difference callbacks, plus removal of every
/// interval by single removes. An input enumeration (no state de-duplication).
pub fn run_intervals(max_n: u32) -> Value {
    let t0 = std::time::Instant::now();
    let ns: Vec<u32> = (1..=max_n).collect();
    let results: Vec<(u64, u64, Vec<Violation>)> = ns.par_iter().map(|&n| {
        let mut viol: Vec<Violation> = Vec::new();
        let mut cases = 0u64;
        let mut nontrivial = 0u64;
        let orders: Vec<(&str, Vec<u32>)> = vec![
            ("ascending", (0..n).collect()),
            ("descending", (0..n).rev().collect()),
            ("inside-out", { let mut v = Vec::new(); let (mut lo, mut hi) = (n as i64 / 2 - 1, n as i64 / 2); while lo >= 0 || hi < n as i64 { if hi < n as i64 { v.push(hi as u32); hi += 1; } if lo >= 0 { v.push(lo as u32); lo -= 1; } } v }),
            ("outside-in", { let mut v = Vec::new(); let (mut lo, mut hi) = (0i64, n as i64 - 1); while lo <= hi { v.push(lo as u32); if hi != lo { v.push(hi as u32); } lo += 1; hi -= 1; } v }),
        ];
        let build = |keys: &[u32], base: u64| -> (Map, Ref) {
            let mut m = Map::new(); let mut r = Ref::new();
            for &k in keys { m.insert(k, base + k as u64); r.insert(k, base + k as u64); }
            (m, r)
        };
        // operand key sets
        let mut operands: Vec<(String, Vec<u32>)> = Vec::new();
        for i in 0..n { for j in i + 1..=n {
            operands.push((format!("[{i},{j})"), (i..j).collect()));
            if j - i < n { operands.push((format!("complement of [{i},{j})"), (0..n).filter(|k| *k < i || *k >= j).collect())); }
        } }
        for stride in 2..=4u32 { for off in 0..stride { operands.push((format!("stride {stride} offset {off}"), (0..n).filter(|k| k % stride == off).collect())); } }
        for (oname, order) in &orders {
            let a = build(order, 1000);
            let a_shape = match check_map(&a.0, &a.1, n) { Ok(s) => s, Err(e) => { viol.push(Violation { sig: "intervals:build".into(), summary: format!("map built by {oname} inserts of 0..{n}: {e}"), replay: json!({"kind":"interval","n":n,"order":oname,"operand":"","op":"build"}) }); continue; } };
            for (bname, bkeys) in &operands {
                let b = build(bkeys, 200_000);
                let b_shape = b.0.verif_shape();
                for bop in [BinOp::Union, BinOp::Diff(0), BinOp::Diff(1), BinOp::Diff(2)] {
                    cases += 1;
                    if bkeys.len() >= 2 { nontrivial += 1; }
                    for (x, y, xs, ys, dir) in [(&a, &b, &a_shape, &b_shape, "map op operand"), (&b, &a, &b_shape, &a_shape, "operand op map")] {
                        if let Err((msg, _)) = check_pair(x, y, xs, ys, bop, &[], n) {
                            if viol.len() < 10 {
                                viol.push(Violation { sig: format!("intervals:{:?}:{}", bop, crate::wbmap::sig_words(&msg)), summary: format!("n={n}, map built by {oname} inserts, operand {bname}, {dir}, {:?}: {msg}", bop),
                                    replay: json!({"kind":"interval","n":n,"order":oname,"operand":bname,"operand_keys":bkeys,"op":format!("{:?}",bop),"direction":dir,"message":msg}) });
                            }
                        }
                    }
                }
                // removal of the operand's keys one by one (ascending and descending)
                for rev in [false, true] {
                    cases += 1;
                    let (mut m, mut r) = build(order, 1000);
                    let mut ks = bkeys.clone(); if rev { ks.reverse(); }
                    for k in ks {
                        let x = m.remove(&k); let y = r.remove(&k);
                        if x != y { if viol.len() < 10 { viol.push(Violation { sig: "intervals:remove-return".into(), summary: format!("n={n} {oname}: remove({k}) returned {x:?}, reference {y:?}"), replay: json!({"kind":"interval","n":n,"order":oname,"operand":bname,"op":"remove"}) }); } break; }
                        if let Err(e) = check_map(&m, &r, n) { if viol.len() < 10 { viol.push(Violation { sig: format!("intervals:remove:{}", sig_words(&e)), summary: format!("n={n}, map built by {oname} inserts, removing the keys of {bname} ({}): after remove({k}): {e}", if rev {"descending"} else {"ascending"}), replay: json!({"kind":"interval","n":n,"order":oname,"operand":bname,"operand_keys":bkeys,"op":"remove","message":e}) }); } break; }
                    }
                }
            }
        }
        (cases, nontrivial, viol)
    }).collect();
    let mut violations = Vec::new();
    let mut sigs = std::collections::HashSet::new();
    let (mut cases, mut nt) = (0u64, 0u64);
    for (c, n, v) in results { cases += c; nt += n; for x in v { if sigs.insert(x.sig.clone()) { violations.push(x); } } }
    json!({
        "states": 0, "transitions": cases, "traces_validated_against_impl": cases, "evaluations": cases, "distinct_nontrivial": nt,
        "rule": "interval family: maps over 0..n built in four insertion orders x operands (all intervals, complements, strides) x union / three difference callbacks in both directions, and key-by-key removal",
        "max_n": max_n, "exhaustive": true, "wall_s": t0.elapsed().as_secs_f64(),
        "samples": [json!({"n": max_n, "order": "ascending", "operand": "[1,3)", "op": "Diff(1)"})],
        "violations": violations.iter().map(|v| json!({"sig": v.sig, "summary": v.summary, "replay": v.replay})).collect::<Vec<_>>(),
    })
}

pub fn sig_words(msg: &str) -> String {
    let cleaned: String = msg.chars().map(|c| if c.is_ascii_digit() { '#' } else { c }).collect();
    cleaned.split(|c| c == ':' || c == '[' || c == '(').next().unwrap_or("").trim().chars().take(60).collect()
}

//! C05 (union-find half) — explicit-state search over the real `eqlog_runtime::Unification`.
//! State = the parent vector of a union-find over n elements (read through `Debug`, so the search sees the
//! real private field). Operations: `root(x)` (compresses paths), `root_const(x)`, `union_roots_into(root(a),
//! root(b))` for every ordered pair of distinct classes, `increase_size_to(n+1)`. Breadth-first to a fixpoint.
//! Oracle in every state and on every transition: a plain partition kept by the driver.
//!  * `root_const(x)` = `root(x)`, the result is a fixed point of both, and lies in the class of x;
//!  * x ~ y in the reference  <=>  root_const(x) == root_const(y);
//!  * `root(x)` changes no class (only the shape), `union` merges exactly the two classes and makes `rhs` the root;
//!  * `classes()` lists every class once, keyed by its root, with exactly its non-root members;
//!  * a clone taken before an operation is unaffected.
use eqlog_runtime::Unification;
use serde_json::{json, Value};
use std::collections::{BTreeMap, BTreeSet, HashMap, VecDeque};

type U = Unification<u32>;

#[derive(Clone, Debug, PartialEq, Eq, Hash, PartialOrd, Ord)]
pub enum Op { Root(u32), Union(u32, u32), Grow }

fn parents_of(u: &U) -> Vec<u32> {
    // Debug of the derive: Unification { parents: [..], sizes: [..] }
    let s = format!("{u:?}");
    let a = s.find("parents: [").expect("Debug shape of Unification") + 10;
    let b = a + s[a..].find(']').unwrap();
    s[a..b].split(',').filter_map(|x| x.trim().parse().ok()).collect()
}

/// reference: class id per element (smallest member)
fn ref_union(cls: &mut Vec<u32>, a: u32, b: u32) {
    let (ca, cb) = (cls[a as usize], cls[b as usize]);
    if ca == cb { return; }
    let keep = ca.min(cb);
    for c in cls.iter_mut() { if *c == ca || *c == cb { *c = keep; } }
}

fn check_state(u: &U, cls: &[u32]) -> Result<(), String> {
    let n = cls.len() as u32;
    if u.len() != cls.len() { return Err(format!("len() = {} but {} elements were created", u.len(), cls.len())); }
    let mut uc = u.clone();
    let mut root_of = Vec::new();
    for x in 0..n {
        let r = u.root_const(x);
        if r >= n { return Err(format!("root_const({x}) = {r} is not an element")); }
        if u.root_const(r) != r { return Err(format!("root_const is not idempotent: root_const({x}) = {r}, root_const({r}) = {}", u.root_const(r))); }
        let rm = uc.root(x);
        if rm != r { return Err(format!("root({x}) = {rm} but root_const({x}) = {r}")); }
        if cls[r as usize] != cls[x as usize] { return Err(format!("root_const({x}) = {r} lies in another class than {x}")); }
        root_of.push(r);
    }
    for x in 0..n { for y in 0..n {
        let same = root_of[x as usize] == root_of[y as usize];
        if same != (cls[x as usize] == cls[y as usize]) {
            return Err(format!("{x} and {y}: equal by roots = {same}, equal in the reference partition = {}", !same));
        }
    } }
    // compressing every path must not have changed any class
    for x in 0..n { if uc.root_const(x) != root_of[x as usize] { return Err(format!("root() changed the representative of {x}")); } }
    let classes: BTreeMap<u32, Vec<u32>> = u.classes();
    let mut want: BTreeMap<u32, Vec<u32>> = BTreeMap::new();
    for x in 0..n { let r = root_of[x as usize]; let e = want.entry(r).or_default(); if x != r { e.push(x); } }
    if classes != want { return Err(format!("classes() = {classes:?}, expected {want:?}")); }
    Ok(())
}

pub fn apply(u: &mut U, cls: &mut Vec<u32>, op: &Op) -> Result<(), String> {
    let before = u.clone();
    let before_parents = parents_of(u);
    match op {
        Op::Root(x) => {
            let want = u.root_const(*x);
            let r = u.root(*x);
            if r != want { return Err(format!("root({x}) = {r}, root_const({x}) = {want}")); }
            if u.root(*x) != r { return Err(format!("root({x}) is not stable: second call differs")); }
        }
        Op::Union(a, b) => {
            let (ra, rb) = (u.root(*a), u.root(*b));
            u.union_roots_into(ra, rb);
            ref_union(cls, *a, *b);
            if u.root_const(*a) != rb || u.root_const(*b) != rb { return Err(format!("after union_roots_into({ra}, {rb}) the root of {a} / {b} is {} / {}, expected {rb}", u.root_const(*a), u.root_const(*b))); }
        }
        Op::Grow => {
            let n = u.len();
            u.increase_size_to(n + 1);
            cls.push(n as u32);
        }
    }
    if parents_of(&before) != before_parents { return Err("an operation changed a clone taken before it".into()); }
    check_state(u, cls)
}

pub fn menu(u: &U, cls: &[u32], max_n: usize) -> Vec<Op> {
    let n = cls.len() as u32;
    let mut m = Vec::new();
    for x in 0..n { m.push(Op::Root(x)); }
    for a in 0..n { for b in 0..n { if cls[a as usize] != cls[b as usize] && u.root_const(a) == a && u.root_const(b) == b { m.push(Op::Union(a, b)); } } }
    if cls.len() < max_n { m.push(Op::Grow); }
    m
}

pub fn run(max_n: usize) -> Value {
    let mut seen: HashMap<Vec<u32>, Vec<Op>> = HashMap::new();
    let mut queue: VecDeque<Vec<Op>> = VecDeque::new();
    let rebuild = |h: &[Op]| -> (U, Vec<u32>) {
        let mut u = U::new();
        let mut cls = Vec::new();
        for op in h { apply(&mut u, &mut cls, op).expect("explored prefix replays"); }
        (u, cls)
    };
    seen.insert(vec![], vec![]);
    queue.push_back(vec![]);
    let (mut transitions, mut violations, mut max_depth, mut max_chain) = (0u64, Vec::new(), 0usize, 0usize);
    let mut sigs = BTreeSet::new();
    let mut samples = Vec::new();
    while let Some(h) = queue.pop_front() {
        let (u, cls) = rebuild(&h);
        for op in menu(&u, &cls, max_n) {
            let (mut u2, mut cls2) = (u.clone(), cls.clone());
            transitions += 1;
            let mut h2 = h.clone();
            h2.push(op.clone());
            match apply(&mut u2, &mut cls2, &op) {
                Err(m) => {
                    let sig: String = m.chars().map(|c| if c.is_ascii_digit() { '#' } else { c }).take(60).collect();
                    if sigs.insert(sig.clone()) && violations.len() < 20 {
                        violations.push(json!({"sig": format!("unification:{sig}"), "summary": format!("Unification after {:?}: {m}", h2), "replay": {"unification_ops": h2.iter().map(op_json).collect::<Vec<_>>() }}));
                    }
                }
                Ok(()) => {
                    let key = parents_of(&u2);
                    // longest parent chain in this state (how deep path compression is exercised)
                    for x in 0..key.len() { let (mut d, mut y) = (0, x); while key[y] as usize != y { y = key[y] as usize; d += 1; } max_chain = max_chain.max(d); }
                    if !seen.contains_key(&key) {
                        max_depth = max_depth.max(h2.len());
                        if samples.len() < 3 && h2.len() >= 7 { samples.push(json!(h2.iter().map(|o| format!("{o:?}")).collect::<Vec<_>>())); }
                        seen.insert(key, h2.clone());
                        queue.push_back(h2);
                    }
                }
            }
        }
    }
    json!({"states": seen.len(), "transitions": transitions, "traces_validated_against_impl": transitions, "evaluations": transitions,
        "distinct_nontrivial": seen.keys().filter(|k| k.iter().enumerate().any(|(i, p)| *p as usize != i)).count(),
        "rule": "state = parent vector of the real Unification<u32>; non-trivial = states with at least one non-root element",
        "max_elements": max_n, "max_depth": max_depth, "longest_parent_chain": max_chain, "exhaustive": true, "samples": samples, "violations": violations})
}

fn op_json(o: &Op) -> Value {
    match o { Op::Root(x) => json!({"root": x}), Op::Union(a, b) => json!({"union": [a, b]}), Op::Grow => json!("grow") }
}

pub fn replay(case: &Value) -> Result<(), String> {
    let mut u = U::new();
    let mut cls = Vec::new();
    for o in case["unification_ops"].as_array().ok_or("no unification_ops")? {
        let op = if o == "grow" { Op::Grow } else if let Some(x) = o.get("root") { Op::Root(x.as_u64().unwrap() as u32) }
                 else { let a = o["union"].as_array().unwrap(); Op::Union(a[0].as_u64().unwrap() as u32, a[1].as_u64().unwrap() as u32) };
        apply(&mut u, &mut cls, &op)?;
    }
    Ok(())
}

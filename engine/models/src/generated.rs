#![allow(warnings)]
include!(concat!(env!("VERIF_GEN_DIR"), "/registry.rs"));

//! Reference semantics: naive evaluation of the *source* rules (control-flow paths) over tiny
//! structures. Closedness check (C01), naive chase to the free model (C02/C07/C17), isomorphism
//! modulo handles (C02/C03/C07/C17). Deliberately boring; sees only the AST.
use crate::theory::*;
use std::collections::{BTreeMap, BTreeSet};

/// A finite structure over canonical element names. `elems[ty]` = elements of the type,
/// `rels[r]` = tuples (functions: arguments followed by the result).
#[derive(Clone, Debug, PartialEq, Eq)]
pub struct Structure {
    pub elems: Vec<BTreeSet<u32>>,
    pub rels: Vec<BTreeSet<Vec<u32>>>,
}

impl Structure {
    pub fn new(th: &Theory) -> Structure {
        Structure { elems: vec![BTreeSet::new(); th.types.len()], rels: vec![BTreeSet::new(); th.rels.len()] }
    }
    pub fn eval_func(&self, th: &Theory, f: usize, args: &[u32]) -> Option<u32> {
        let n = th.rels[f].arity.len() - 1;
        for t in &self.rels[f] {
            if &t[..n] == args { return Some(t[n]); }
        }
        None
    }
    pub fn size(&self) -> usize { self.elems.iter().map(|e| e.len()).sum::<usize>() + self.rels.iter().map(|r| r.len()).sum::<usize>() }
}

pub type Env = Vec<Option<u32>>;

/// All ways to make `term` denote `value` by extending `env`.
fn match_term(th: &Theory, s: &Structure, term: &Term, value: u32, env: &Env, out: &mut Vec<Env>) {
    match term {
        Term::Var(v) => match env[*v] {
            Some(x) => if x == value { out.push(env.clone()) },
            None => { let mut e = env.clone(); e[*v] = Some(value); out.push(e) }
        },
        Term::App(f, args) => {
            let n = args.len();
            for t in &s.rels[*f] {
                if t[n] != value { continue; }
                let mut envs = vec![env.clone()];
                for (i, a) in args.iter().enumerate() {
                    let mut next = Vec::new();
                    for e in &envs { match_term(th, s, a, t[i], e, &mut next); }
                    envs = next;
                    if envs.is_empty() { break; }
                }
                out.extend(envs);
            }
        }
    }
}

/// All (environment, value) pairs such that `term` denotes `value`.
fn enum_term(th: &Theory, s: &Structure, path: &Path, term: &Term, env: &Env, out: &mut Vec<(Env, u32)>) {
    match term {
        Term::Var(v) => match env[*v] {
            Some(x) => out.push((env.clone(), x)),
            None => for &x in &s.elems[path.var_types[*v]] { let mut e = env.clone(); e[*v] = Some(x); out.push((e, x)); }
        },
        Term::App(f, args) => {
            let n = args.len();
            for t in &s.rels[*f] {
                let mut envs = vec![env.clone()];
                for (i, a) in args.iter().enumerate() {
                    let mut next = Vec::new();
                    for e in &envs { match_term(th, s, a, t[i], e, &mut next); }
                    envs = next;
                    if envs.is_empty() { break; }
                }
                for e in envs { out.push((e, t[n])); }
            }
        }
    }
}

/// Deterministic evaluation of a term whose variables are all bound; None if some application is undefined.
pub fn eval_term(th: &Theory, s: &Structure, term: &Term, env: &Env) -> Option<u32> {
    match term {
        Term::Var(v) => env[*v],
        Term::App(f, args) => {
            let mut vals = Vec::with_capacity(args.len());
            for a in args { vals.push(eval_term(th, s, a, env)?); }
            s.eval_func(th, *f, &vals)
        }
    }
}

fn dedup(mut v: Vec<Env>) -> Vec<Env> { v.sort(); v.dedup(); v }

/// Extends each environment by all matches of an `if` atom.
pub fn match_if(th: &Theory, s: &Structure, path: &Path, atom: &Atom, envs: &[Env]) -> Vec<Env> {
    let mut out = Vec::new();
    for env in envs {
        match atom {
            Atom::Pred(r, args) => {
                for t in &s.rels[*r] {
                    let mut es = vec![env.clone()];
                    for (i, a) in args.iter().enumerate() {
                        let mut next = Vec::new();
                        for e in &es { match_term(th, s, a, t[i], e, &mut next); }
                        es = next;
                        if es.is_empty() { break; }
                    }
                    out.extend(es);
                }
            }
            Atom::Eq(l, r) => {
                // enumerate the side that is not a bare unbound variable first
                let (first, second) = match (l, r) {
                    (Term::Var(v), _) if env[*v].is_none() => (r, l),
                    _ => (l, r),
                };
                let mut vals = Vec::new();
                enum_term(th, s, path, first, env, &mut vals);
                for (e, v) in vals { match_term(th, s, second, v, &e, &mut out); }
            }
            Atom::Defined(t, _) => {
                let mut vals = Vec::new();
                enum_term(th, s, path, t, env, &mut vals);
                out.extend(vals.into_iter().map(|(e, _)| e));
            }
            Atom::Typed(t, ty) => {
                if let Term::Var(v) = t {
                    match env[*v] {
                        Some(x) => if s.elems[*ty].contains(&x) { out.push(env.clone()) },
                        None => for &x in &s.elems[*ty] { let mut e = env.clone(); e[*v] = Some(x); out.push(e); }
                    }
                }
            }
        }
    }
    dedup(out)
}

#[derive(Clone, Debug)]
pub struct Unsatisfied {
    pub rule: String,
    pub atom_index: usize,
    pub line: u64,
    pub what: String,
    pub assignment: Vec<(String, u32)>,
}

fn show_env(path: &Path, env: &Env) -> Vec<(String, u32)> {
    env.iter().enumerate().filter_map(|(i, v)| v.map(|x| (path.var_names[i].split('#').next().unwrap().to_string(), x))).collect()
}

/// C01 oracle: is the structure closed under every path and is every function single-valued?
/// `include_builtin`: also check the built-in inheritance paths of model theories.
pub fn check_closed(th: &Theory, s: &Structure, include_builtin: bool) -> Vec<Unsatisfied> {
    let mut bad = Vec::new();
    for (ri, r) in th.rels.iter().enumerate() {
        if !r.is_func { continue; }
        let n = r.arity.len() - 1;
        let mut seen: BTreeMap<Vec<u32>, u32> = BTreeMap::new();
        for t in &s.rels[ri] {
            if let Some(prev) = seen.insert(t[..n].to_vec(), t[n]) {
                if prev != t[n] {
                    bad.push(Unsatisfied { rule: format!("functionality of {}", r.name), atom_index: 0, line: 0,
                        what: format!("{}({:?}) has the two values {} and {}", r.name, &t[..n], prev, t[n]), assignment: vec![] });
                }
            }
        }
    }
    for path in &th.paths {
        if path.builtin && !include_builtin { continue; }
        let mut envs: Vec<Env> = vec![vec![None; path.var_names.len()]];
        for (ai, pa) in path.atoms.iter().enumerate() {
            if envs.is_empty() { break; }
            if !pa.is_then {
                envs = match_if(th, s, path, &pa.atom, &envs);
                continue;
            }
            let mut next = Vec::new();
            for env in &envs {
                let mut fail = |what: String, bad: &mut Vec<Unsatisfied>| {
                    if bad.len() < 20 {
                        bad.push(Unsatisfied { rule: path.rule.clone(), atom_index: ai, line: pa.line, what, assignment: show_env(path, env) });
                    }
                };
                match &pa.atom {
                    Atom::Pred(r, args) => {
                        let vals: Option<Vec<u32>> = args.iter().map(|a| eval_term(th, s, a, env)).collect();
                        match vals {
                            Some(v) if s.rels[*r].contains(&v) => next.push(env.clone()),
                            Some(v) => fail(format!("conclusion {}({:?}) is missing", th.rels[*r].name, v), &mut bad),
                            None => fail(format!("an argument term of conclusion {}(..) is undefined", th.rels[*r].name), &mut bad),
                        }
                    }
                    Atom::Eq(l, r) => {
                        match (eval_term(th, s, l, env), eval_term(th, s, r, env)) {
                            (Some(a), Some(b)) if a == b => next.push(env.clone()),
                            (Some(a), Some(b)) => {
                                // where a function graph is not single-valued (reported separately as a functionality
                                // violation) `f(args) = v` is read as "the tuple (args, v) is present"
                                let as_tuple = |t: &Term, v: u32| -> bool {
                                    if let Term::App(f, args) = t {
                                        let vals: Option<Vec<u32>> = args.iter().map(|x| eval_term(th, s, x, env)).collect();
                                        if let Some(mut row) = vals { row.push(v); return s.rels[*f].contains(&row); }
                                    }
                                    false
                                };
                                if as_tuple(l, b) || as_tuple(r, a) { next.push(env.clone()) }
                                else { fail(format!("concluded equality does not hold: {a} != {b}"), &mut bad) }
                            }
                            _ => fail("a side of a concluded equality is undefined".to_string(), &mut bad),
                        }
                    }
                    Atom::Defined(t, bind) => {
                        match eval_term(th, s, t, env) {
                            Some(v) => { let mut e = env.clone(); if let Some(b) = bind { e[*b] = Some(v); } next.push(e); }
                            None => fail("term required to be defined is undefined".to_string(), &mut bad),
                        }
                    }
                    Atom::Typed(..) => next.push(env.clone()),
                }
            }
            envs = dedup(next);
        }
    }
    bad
}

/// Does any rule have a match of its first `if` stage? (used to count non-trivial closed states)
pub fn some_rule_matches(th: &Theory, s: &Structure) -> bool {
    for path in &th.paths {
        let mut envs: Vec<Env> = vec![vec![None; path.var_names.len()]];
        let mut any_if = false;
        for pa in &path.atoms {
            if pa.is_then { break; }
            any_if = true;
            envs = match_if(th, s, path, &pa.atom, &envs);
            if envs.is_empty() { break; }
        }
        if any_if && !envs.is_empty() { return true; }
    }
    false
}

// ------------------------------------------------------------------------------------------------
// Chase
// ------------------------------------------------------------------------------------------------

/// What the caller asserted, over handle indices (the k-th element-creating call).
#[derive(Clone, Debug, PartialEq, Eq, PartialOrd, Ord, Hash)]
pub enum Assertion {
    New { ty: usize },
    Define { rel: usize, args: Vec<usize> },
    Insert { rel: usize, args: Vec<usize> },
    Equate { ty: usize, a: usize, b: usize },
}

pub struct ChaseResult {
    pub structure: Structure,
    /// canonical element of each handle
    pub handles: Vec<u32>,
    pub rounds: usize,
}

#[derive(Debug, Clone, PartialEq, Eq)]
pub enum ChaseError { ElementCap, RoundCap, Unsupported(String) }

struct ChaseState<'a> {
    th: &'a Theory,
    parent: Vec<u32>,
    el_type: Vec<usize>,
    rels: Vec<BTreeSet<Vec<u32>>>,
}

impl<'a> ChaseState<'a> {
    fn find(&self, mut x: u32) -> u32 { while self.parent[x as usize] != x { x = self.parent[x as usize]; } x }
    fn union(&mut self, a: u32, b: u32) -> bool {
        let (a, b) = (self.find(a), self.find(b));
        if a == b { return false; }
        // smaller id survives: canonical names are stable and independent of any weights
        let (keep, drop) = if a < b { (a, b) } else { (b, a) };
        self.parent[drop as usize] = keep;
        true
    }
    fn fresh(&mut self, ty: usize) -> u32 {
        let id = self.parent.len() as u32;
        self.parent.push(id);
        self.el_type.push(ty);
        id
    }
    /// rewrite tuples to canonical names and apply functionality until stable
    fn normalize(&mut self) {
        loop {
            let mut changed = false;
            for r in 0..self.rels.len() {
                let tuples: Vec<Vec<u32>> = self.rels[r].iter().cloned().collect();
                let mut new: BTreeSet<Vec<u32>> = BTreeSet::new();
                for t in tuples { new.insert(t.iter().map(|&x| self.find(x)).collect()); }
                self.rels[r] = new;
            }
            for r in 0..self.rels.len() {
                if !self.th.rels[r].is_func { continue; }
                let n = self.th.rels[r].arity.len() - 1;
                let mut seen: BTreeMap<Vec<u32>, u32> = BTreeMap::new();
                let mut merges = Vec::new();
                for t in &self.rels[r] {
                    if let Some(&prev) = seen.get(&t[..n]) { if prev != t[n] { merges.push((prev, t[n])); } }
                    else { seen.insert(t[..n].to_vec(), t[n]); }
                }
                for (a, b) in merges { changed |= self.union(a, b); }
            }
            if !changed { break; }
        }
    }
    fn structure(&self) -> Structure {
        let mut s = Structure::new(self.th);
        for x in 0..self.parent.len() as u32 {
            if self.find(x) == x { s.elems[self.el_type[x as usize]].insert(x); }
        }
        s.rels = self.rels.clone();
        s
    }
}

/// A value created for `f(args)` (by define_ or by a `!` conclusion) lives in its natural parent: the receiver of a
/// member function, the codomain of the morphism for a morphism application (which is made defined if necessary).
/// Under well-typed inputs every value of such a function is of this kind, so the fact is part of "f(args) is defined".
fn natural_parent_facts(th: &Theory, st: &mut ChaseState, f: usize, args: &[u32], id: u32) -> Result<(), ChaseError> {
    match th.natural_parent(f) {
        NaturalParent::None => {}
        NaturalParent::Arg0 { membership } => { st.rels[membership].insert(vec![args[0], id]); }
        NaturalParent::CodOfArg0 { cod, membership } => {
            let m = st.find(args[0]);
            let existing = st.rels[cod].iter().find(|t| st.find(t[0]) == m).map(|t| t[1]);
            let c = match existing { Some(c) => c, None => { let c = st.fresh(th.rels[cod].arity[1]); st.rels[cod].insert(vec![args[0], c]); c } };
            st.rels[membership].insert(vec![c, id]);
        }
        NaturalParent::Unsupported => return Err(ChaseError::Unsupported(format!("`!` / define_ on {} (member-typed result without a natural parent)", th.rels[f].name))),
    }
    Ok(())
}

pub fn chase(th: &Theory, assertions: &[Assertion], elem_cap: usize, round_cap: usize, include_builtin: bool) -> Result<ChaseResult, ChaseError> {
    let mut st = ChaseState { th, parent: vec![], el_type: vec![], rels: vec![BTreeSet::new(); th.rels.len()] };
    let mut handles: Vec<u32> = Vec::new();
    for a in assertions {
        match a {
            Assertion::New { ty } => { let id = st.fresh(*ty); handles.push(id); }
            Assertion::Define { rel, args } => {
                let res_ty = *th.rels[*rel].arity.last().unwrap();
                let id = st.fresh(res_ty);
                let mut t: Vec<u32> = args.iter().map(|&h| handles[h]).collect();
                natural_parent_facts(th, &mut st, *rel, &t, id)?;
                t.push(id);
                st.rels[*rel].insert(t);
                handles.push(id);
            }
            Assertion::Insert { rel, args } => { st.rels[*rel].insert(args.iter().map(|&h| handles[h]).collect()); }
            Assertion::Equate { a, b, .. } => { st.union(handles[*a], handles[*b]); }
        }
    }
    st.normalize();
    let mut rounds = 0usize;
    loop {
        // ---- saturate the surjective consequences
        let mut pending: BTreeSet<(usize, Vec<u32>)>;
        loop {
            rounds += 1;
            if rounds > round_cap { return Err(ChaseError::RoundCap); }
            let s = st.structure();
            let mut add_tuples: Vec<(usize, Vec<u32>)> = Vec::new();
            let mut add_eqs: Vec<(u32, u32)> = Vec::new();
            pending = BTreeSet::new();
            for path in &th.paths {
                if path.builtin && !include_builtin { continue; }
                let mut envs: Vec<Env> = vec![vec![None; path.var_names.len()]];
                for pa in &path.atoms {
                    if envs.is_empty() { break; }
                    if !pa.is_then { envs = match_if(th, &s, path, &pa.atom, &envs); continue; }
                    let mut next = Vec::new();
                    for env in &envs {
                        match &pa.atom {
                            Atom::Pred(r, args) => {
                                let vals: Option<Vec<u32>> = args.iter().map(|a| eval_term(th, &s, a, env)).collect();
                                if let Some(v) = vals {
                                    if !s.rels[*r].contains(&v) { add_tuples.push((*r, v)); }
                                    next.push(env.clone());
                                }
                            }
                            Atom::Eq(l, r) => {
                                let (a, b) = (eval_term(th, &s, l, env), eval_term(th, &s, r, env));
                                match (a, b) {
                                    (Some(a), Some(b)) => { if a != b { add_eqs.push((a, b)); } next.push(env.clone()); }
                                    (Some(v), None) | (None, Some(v)) => {
                                        let undefined = if a.is_none() { l } else { r };
                                        if let Term::App(f, args) = undefined {
                                            let vals: Option<Vec<u32>> = args.iter().map(|x| eval_term(th, &s, x, env)).collect();
                                            if let Some(mut t) = vals { t.push(v); add_tuples.push((*f, t)); }
                                        }
                                    }
                                    (None, None) => {
                                        // both sides undefined: only fine if a later iteration defines one of them
                                    }
                                }
                            }
                            Atom::Defined(t, bind) => {
                                match eval_term(th, &s, t, env) {
                                    Some(v) => { let mut e = env.clone(); if let Some(b) = bind { e[*b] = Some(v); } next.push(e); }
                                    None => {
                                        if let Term::App(f, args) = t {
                                            let vals: Option<Vec<u32>> = args.iter().map(|x| eval_term(th, &s, x, env)).collect();
                                            match vals {
                                                Some(v) => { pending.insert((*f, v)); }
                                                None => return Err(ChaseError::Unsupported(format!("rule {}: `!` on a term with an undefined proper sub-term", path.rule))),
                                            }
                                        }
                                    }
                                }
                            }
                            Atom::Typed(..) => next.push(env.clone()),
                        }
                    }
                    envs = dedup(next);
                }
            }
            let mut changed = false;
            for (r, t) in add_tuples { changed |= st.rels[r].insert(t); }
            for (a, b) in add_eqs { changed |= st.union(a, b); }
            st.normalize();
            if !changed { break; }
        }
        // ---- one round of non-surjective conclusions
        let mut fired = false;
        for (f, args) in pending {
            let args: Vec<u32> = args.iter().map(|&x| st.find(x)).collect();
            let n = args.len();
            if st.rels[f].iter().any(|t| t[..n] == args[..]) { continue; }
            if st.parent.len() >= elem_cap { return Err(ChaseError::ElementCap); }
            let id = st.fresh(*th.rels[f].arity.last().unwrap());
            if let Err(e) = natural_parent_facts(th, &mut st, f, &args, id) { return Err(e); }
            let mut t = args; t.push(id);
            st.rels[f].insert(t);
            fired = true;
        }
        st.normalize();
        if !fired { break; }
    }
    let handles = handles.iter().map(|&h| st.find(h)).collect();
    Ok(ChaseResult { structure: st.structure(), handles, rounds })
}

// ------------------------------------------------------------------------------------------------
// Isomorphism modulo handles
// ------------------------------------------------------------------------------------------------

/// `a` with handle elements `ha` (one per handle index, with the handle's type in `hty`) against
/// `b` with `hb`. The only candidate isomorphism is the identity on handles extended along function
/// graphs; it must be a bijection preserving and reflecting everything. With `hom_only` the map need
/// only be a homomorphism from a into b (C07: a stopping state contains nothing outside the free model).
pub fn iso_modulo_handles(th: &Theory, a: &Structure, ha: &[u32], b: &Structure, hb: &[u32], hty: &[usize], hom_only: bool) -> Result<(), String> {
    let nt = th.types.len();
    let mut phi: Vec<BTreeMap<u32, u32>> = vec![BTreeMap::new(); nt];
    for k in 0..ha.len() {
        let ty = hty[k];
        if !a.elems[ty].contains(&ha[k]) { return Err(format!("handle #{k} (element {}) is not a canonical element of its type in the first structure", ha[k])); }
        if !b.elems[ty].contains(&hb[k]) { return Err(format!("handle #{k} is not a canonical element in the second structure")); }
        if let Some(&prev) = phi[ty].get(&ha[k]) {
            if prev != hb[k] { return Err(format!("handles are identified in the first structure but not in the second (handle #{k})")); }
        }
        phi[ty].insert(ha[k], hb[k]);
    }
    // extend along function graphs
    loop {
        let mut changed = false;
        for (ri, r) in th.rels.iter().enumerate() {
            if !r.is_func { continue; }
            let n = r.arity.len() - 1;
            for t in &a.rels[ri] {
                let res_ty = r.arity[n];
                if phi[res_ty].contains_key(&t[n]) { continue; }
                let margs: Option<Vec<u32>> = (0..n).map(|i| phi[r.arity[i]].get(&t[i]).copied()).collect();
                if let Some(margs) = margs {
                    match b.eval_func(th, ri, &margs) {
                        Some(v) => { phi[res_ty].insert(t[n], v); changed = true; }
                        None => return Err(format!("{}({:?}) is defined in the first structure but its image {}({:?}) is undefined in the second", r.name, &t[..n], r.name, margs)),
                    }
                }
            }
        }
        if !changed { break; }
    }
    for ty in 0..nt {
        for e in &a.elems[ty] {
            if !phi[ty].contains_key(e) {
                return Err(format!("element {} of type {} is not the value of any term over the caller's elements", e, th.types[ty].name));
            }
        }
    }
    for (ri, r) in th.rels.iter().enumerate() {
        for t in &a.rels[ri] {
            let mt: Vec<u32> = t.iter().enumerate().map(|(i, x)| phi[r.arity[i]][x]).collect();
            if !b.rels[ri].contains(&mt) {
                return Err(format!("tuple {}{:?} of the first structure has no counterpart {}{:?} in the second", r.name, t, r.name, mt));
            }
        }
    }
    if hom_only { return Ok(()); }
    for ty in 0..nt {
        let img: BTreeSet<u32> = phi[ty].values().copied().collect();
        if img.len() != phi[ty].len() {
            return Err(format!("two different elements of type {} of the first structure correspond to one element of the second (a spurious duplicate or a missing equality)", th.types[ty].name));
        }
        if img.len() != b.elems[ty].len() || a.elems[ty].len() != b.elems[ty].len() {
            return Err(format!("type {}: {} elements in the first structure, {} in the second", th.types[ty].name, a.elems[ty].len(), b.elems[ty].len()));
        }
    }
    for (ri, r) in th.rels.iter().enumerate() {
        if a.rels[ri].len() != b.rels[ri].len() {
            return Err(format!("relation {}: {} tuples in the first structure, {} in the second", r.name, a.rels[ri].len(), b.rels[ri].len()));
        }
    }
    Ok(())
}

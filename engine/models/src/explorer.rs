//! Level-synchronous breadth-first exploration of API histories of a generated model.
//! A state is identified with the history that reaches it and is rebuilt by replay on a fresh model;
//! states are de-duplicated by a dump of every private field plus the handle environment.
use crate::dynmodel::*;
use crate::oracles::*;
use crate::refsem::*;
use crate::theory::*;
use rayon::prelude::*;
use serde_json::{json, Value};
use std::cell::Cell;
use std::collections::{BTreeMap, HashMap, HashSet};
use std::hash::{Hash, Hasher};
use std::panic::{catch_unwind, AssertUnwindSafe};

#[derive(Clone, Debug, PartialEq, Eq, Hash, PartialOrd, Ord)]
pub enum Cond {
    False,
    True,
    Holds(usize, Vec<usize>),
    Equal(usize, usize, usize),
    Defined(usize, Vec<usize>),
    /// stop at the k-th evaluation of the condition (k >= 1); not a function of the model
    Iter(usize),
}

#[derive(Clone, Debug, PartialEq, Eq, Hash, PartialOrd, Ord)]
pub enum Op {
    New(usize),
    /// element of a member type created inside the model element with the given handle: `new_<type>(parent)`
    NewIn(usize, usize),
    NewEnum(usize, usize, Vec<usize>),
    Define(usize, Vec<usize>),
    Insert(usize, Vec<usize>),
    Equate(usize, usize, usize),
    Close,
    CloseUntil(Cond),
}

impl Op {
    pub fn show(&self, th: &Theory) -> String {
        let hs = |v: &Vec<usize>| v.iter().map(|h| format!("h{h}")).collect::<Vec<_>>().join(",");
        match self {
            Op::New(t) => format!("new_{}()", snake(&th.types[*t].name)),
            Op::NewIn(t, p) => format!("new_{}(h{p})", snake(&th.types[*t].name)),
            Op::NewEnum(t, c, a) => format!("new_{}({}({}))", snake(&th.types[*t].name), th.rels[*c].name, hs(a)),
            Op::Define(r, a) => format!("define_{}({})", th.rels[*r].name, hs(a)),
            Op::Insert(r, a) => format!("insert_{}({})", th.rels[*r].name, hs(a)),
            Op::Equate(t, a, b) => format!("equate_{}(h{a},h{b})", snake(&th.types[*t].name)),
            Op::Close => "close()".into(),
            Op::CloseUntil(c) => format!("close_until({})", match c {
                Cond::False => "false".to_string(), Cond::True => "true".to_string(),
                Cond::Holds(r, a) => format!("{}({})", th.rels[*r].name, hs(a)),
                Cond::Equal(_, a, b) => format!("h{a}==h{b}"),
                Cond::Defined(r, a) => format!("{}({}) defined", th.rels[*r].name, hs(a)),
                Cond::Iter(k) => format!("stop at evaluation #{k}"),
            }),
        }
    }
    pub fn to_json(&self) -> Value {
        match self {
            Op::New(t) => json!({"op":"new","ty":t}),
            Op::NewIn(t, p) => json!({"op":"new_in","ty":t,"parent":p}),
            Op::NewEnum(t, c, a) => json!({"op":"new_enum","ty":t,"ctor":c,"args":a}),
            Op::Define(r, a) => json!({"op":"define","rel":r,"args":a}),
            Op::Insert(r, a) => json!({"op":"insert","rel":r,"args":a}),
            Op::Equate(t, a, b) => json!({"op":"equate","ty":t,"a":a,"b":b}),
            Op::Close => json!({"op":"close"}),
            Op::CloseUntil(c) => json!({"op":"close_until","cond": match c {
                Cond::False => json!("false"), Cond::True => json!("true"),
                Cond::Holds(r, a) => json!({"holds":r,"args":a}),
                Cond::Equal(t, a, b) => json!({"equal":t,"a":a,"b":b}),
                Cond::Defined(r, a) => json!({"defined":r,"args":a}),
                Cond::Iter(k) => json!({"iter":k}),
            }}),
        }
    }
    pub fn from_json(v: &Value) -> Op {
        let us = |x: &Value| x.as_u64().unwrap() as usize;
        let vs = |x: &Value| x.as_array().unwrap().iter().map(|y| y.as_u64().unwrap() as usize).collect::<Vec<_>>();
        match v["op"].as_str().unwrap() {
            "new" => Op::New(us(&v["ty"])),
            "new_in" => Op::NewIn(us(&v["ty"]), us(&v["parent"])),
            "new_enum" => Op::NewEnum(us(&v["ty"]), us(&v["ctor"]), vs(&v["args"])),
            "define" => Op::Define(us(&v["rel"]), vs(&v["args"])),
            "insert" => Op::Insert(us(&v["rel"]), vs(&v["args"])),
            "equate" => Op::Equate(us(&v["ty"]), us(&v["a"]), us(&v["b"])),
            "close" => Op::Close,
            _ => {
                let c = &v["cond"];
                Op::CloseUntil(if c == "false" { Cond::False } else if c == "true" { Cond::True }
                    else if c.get("holds").is_some() { Cond::Holds(us(&c["holds"]), vs(&c["args"])) }
                    else if c.get("equal").is_some() { Cond::Equal(us(&c["equal"]), us(&c["a"]), us(&c["b"])) }
                    else if c.get("defined").is_some() { Cond::Defined(us(&c["defined"]), vs(&c["args"])) }
                    else { Cond::Iter(us(&c["iter"])) })
            }
        }
    }
}

pub fn history_json(th: &Theory, h: &[Op]) -> Value {
    json!({"ops": h.iter().map(|o| o.to_json()).collect::<Vec<_>>(), "text": h.iter().map(|o| o.show(th)).collect::<Vec<_>>()})
}

#[derive(Clone, Debug)]
pub struct Violation { pub sig: String, pub summary: String, pub replay: Value }

/// What one executed step reports back.
#[derive(Default)]
pub struct StepOut {
    pub violations: Vec<(String, String)>, // (oracle-level signature, message)
    pub inconclusive: u32,
    pub close_iterations: u64,
    pub cond_evaluations: u64,
    pub returned: Option<bool>,
}

pub const PANIC_SENTINEL: &str = "verif-iteration-cap";

/// A live model plus everything the driver knows about the history so far.
pub struct Run<'a> {
    pub th: &'a Theory,
    pub model: Box<dyn DynModel>,
    pub handles: Vec<(usize, u32)>,
    pub assertions: Vec<Assertion>,
    pub transcript: std::collections::hash_map::DefaultHasher,
    pub closes: usize,
    pub early_exits: usize,
    pub dirty_since_close: bool,
    pub c05: C05State,
}

pub fn dump_structure(th: &Theory, m: &dyn DynModel) -> Structure {
    let mut s = Structure::new(th);
    for t in 0..th.types.len() { s.elems[t] = m.iter_type(t).into_iter().collect(); }
    for r in 0..th.rels.len() { s.rels[r] = m.iter_rel(r).into_iter().collect(); }
    s
}

pub fn observe(th: &Theory, m: &dyn DynModel, handles: &[(usize, u32)]) -> String {
    let mut s = String::new();
    use std::fmt::Write;
    for t in 0..th.types.len() { write!(s, "T{}={:?};", t, m.iter_type(t)).unwrap(); }
    for r in 0..th.rels.len() { write!(s, "R{}={:?};", r, m.iter_rel(r)).unwrap(); }
    for (ty, id) in handles { write!(s, "{}>{};", id, m.root(*ty, *id)).unwrap(); }
    s
}

impl<'a> Run<'a> {
    pub fn new(th: &'a Theory, make: fn() -> Box<dyn DynModel>) -> Run<'a> {
        Run { th, model: make(), handles: vec![], assertions: vec![], transcript: Default::default(), closes: 0, early_exits: 0,
              dirty_since_close: true, c05: C05State::default() }
    }
    pub fn handle_roots(&self) -> Vec<u32> { self.handles.iter().map(|(t, i)| self.model.root(*t, *i)).collect() }
    pub fn handle_types(&self) -> Vec<usize> { self.handles.iter().map(|(t, _)| *t).collect() }
    pub fn key(&self) -> (u64, u64) {
        let d = self.model.dump_internal();
        let mut h1 = std::collections::hash_map::DefaultHasher::new();
        d.hash(&mut h1); self.handles.hash(&mut h1); self.early_exits.hash(&mut h1);
        let mut h2 = std::collections::hash_map::DefaultHasher::new();
        17u8.hash(&mut h2); self.handles.hash(&mut h2); d.hash(&mut h2);
        (h1.finish(), h2.finish())
    }
    fn ids(&self, hs: &[usize]) -> Vec<u32> { hs.iter().map(|&h| self.handles[h].1).collect() }

    /// Executes one operation on the real model. `oracles` decides which checks run around it.
    pub fn step(&mut self, op: &Op, oracles: &Oracles, out: &mut StepOut) -> Result<(), String> {
        let th = self.th;
        let pre = if oracles.c05 { Some(c05_before(self, op)) } else { None };
        let pre_close = match op { Op::Close | Op::CloseUntil(_) => Some(PreClose::capture(self, oracles)), _ => None };
        let res = catch_unwind(AssertUnwindSafe(|| -> Option<u32> {
            match op {
                Op::New(t) => Some(self.model.new_el(*t)),
                Op::NewIn(t, p) => Some(self.model.new_member(*t, self.handles[*p].1)),
                Op::NewEnum(t, c, a) => { let ids = self.ids(a); Some(self.model.new_enum(*t, *c, &ids)) }
                Op::Define(r, a) => { let ids = self.ids(a); Some(self.model.define(*r, &ids)) }
                Op::Insert(r, a) => { let ids = self.ids(a); self.model.insert(*r, &ids); None }
                Op::Equate(t, a, b) => { self.model.equate(*t, self.handles[*a].1, self.handles[*b].1); None }
                Op::Close | Op::CloseUntil(_) => None,
            }
        }));
        let ret = match res {
            Ok(r) => r,
            Err(p) => return Err(format!("the API call {} panicked: {}", op.show(th), panic_text(&p))),
        };
        match op {
            Op::New(t) => { self.handles.push((*t, ret.unwrap())); self.assertions.push(Assertion::New { ty: *t }); self.dirty_since_close = true; }
            Op::NewIn(t, p) => {
                // new_<type>(parent) = a fresh element plus the membership fact
                let h = self.handles.len();
                self.handles.push((*t, ret.unwrap()));
                self.assertions.push(Assertion::New { ty: *t });
                self.assertions.push(Assertion::Insert { rel: th.types[*t].membership.expect("member type"), args: vec![*p, h] });
                self.dirty_since_close = true;
            }
            Op::NewEnum(t, c, a) => { self.handles.push((*t, ret.unwrap())); self.assertions.push(Assertion::Define { rel: *c, args: a.clone() }); self.dirty_since_close = true; }
            // (for a function whose result type is a member type, "f(args) is defined" includes that the value lives in
            // its natural parent: the reference chase adds that, see refsem::natural_parent_facts)
            Op::Define(r, a) => { let ty = *th.rels[*r].arity.last().unwrap(); self.handles.push((ty, ret.unwrap())); self.assertions.push(Assertion::Define { rel: *r, args: a.clone() }); self.dirty_since_close = true; }
            Op::Insert(r, a) => { self.assertions.push(Assertion::Insert { rel: *r, args: a.clone() }); self.dirty_since_close = true; }
            Op::Equate(t, a, b) => { self.assertions.push(Assertion::Equate { ty: *t, a: *a, b: *b }); self.dirty_since_close = true; }
            Op::Close | Op::CloseUntil(_) => {}
        }
        if let Some(pre) = pre { c05_after(self, op, ret, pre, out); }
        if let Some(pc) = pre_close {
            let cond = match op { Op::CloseUntil(c) => c.clone(), _ => Cond::False };
            self.do_close(&cond, oracles, pc, out)?;
            if oracles.c05 { c05_reseed(self); }
        }
        ret.hash(&mut self.transcript);
        observe(th, &*self.model, &self.handles).hash(&mut self.transcript);
        Ok(())
    }

    fn do_close(&mut self, cond: &Cond, oracles: &Oracles, pc: PreClose, out: &mut StepOut) -> Result<(), String> {
        let th = self.th;
        let evals = Cell::new(0u64);
        let cap = oracles.iteration_cap(th, &*self.model);
        let handles = self.handles.clone();
        let inside: std::cell::RefCell<Vec<(String, String)>> = Default::default();
        let check_inside = oracles.c04;
        let closure = |m: &dyn DynModel| -> bool {
            evals.set(evals.get() + 1);
            if evals.get() > cap { std::panic::panic_any(PANIC_SENTINEL); }
            if !th.surjective && m.id_counters().iter().sum::<usize>() > 200 { std::panic::panic_any(PANIC_SENTINEL); }
            if check_inside {
                let mut v = inside.borrow_mut();
                if v.len() < 5 { c04_internal(th, m, "inside close_until (condition evaluation)", &mut v); }
            }
            match cond {
                Cond::False => false,
                Cond::True => true,
                Cond::Holds(r, a) => m.holds(*r, &a.iter().map(|&h| handles[h].1).collect::<Vec<_>>()),
                Cond::Equal(t, a, b) => m.are_equal(*t, handles[*a].1, handles[*b].1),
                Cond::Defined(r, a) => m.eval(*r, &a.iter().map(|&h| handles[h].1).collect::<Vec<_>>()).is_some(),
                Cond::Iter(k) => evals.get() >= *k as u64,
            }
        };
        let res = catch_unwind(AssertUnwindSafe(|| self.model.close_until(&closure)));
        out.cond_evaluations += evals.get();
        out.close_iterations += evals.get().saturating_sub(1);
        out.violations.extend(inside.into_inner());
        let returned = match res {
            Ok(b) => b,
            Err(p) => {
                if p.downcast_ref::<&str>() == Some(&PANIC_SENTINEL) {
                    if th.surjective {
                        return Err(format!("close() did not terminate within {cap} iterations on a program without `!` (it must reach a fixed point: each iteration can only add tuples over the existing elements or merge classes)"));
                    }
                    return Err(format!("INCONCLUSIVE: close() exceeded {cap} iterations on a program with non-surjective rules"));
                }
                return Err(format!("close()/close_until() panicked: {}", panic_text(&p)));
            }
        };
        out.returned = Some(returned);
        if returned { self.early_exits += 1; } else { self.closes += 1; self.dirty_since_close = false; }
        after_close(self, cond, returned, oracles, pc, out);
        Ok(())
    }
}

pub fn panic_text(p: &Box<dyn std::any::Any + Send>) -> String {
    if let Some(s) = p.downcast_ref::<&str>() { s.to_string() }
    else if let Some(s) = p.downcast_ref::<String>() { s.clone() }
    else { "<non-string panic payload>".into() }
}

// ------------------------------------------------------------------------------------------------
// Menu
// ------------------------------------------------------------------------------------------------

#[derive(Clone, Debug)]
pub struct Bounds {
    pub depth: usize,
    /// elements the prelude creates per creatable type
    pub prelude_elems: usize,
    /// additional new_ calls allowed per type during the search
    pub extra_new: usize,
    pub max_defines: usize,
    pub max_closes: usize,
    pub state_cap: usize,
    /// deterministic budget: transitions executed per theory (the wall cap is only a safety net)
    pub trans_cap: usize,
    pub wall_cap_s: u64,
    pub close_until: bool,
}

fn tuples_over(handles: &[(usize, u32)], tys: &[usize]) -> Vec<Vec<usize>> {
    let mut out: Vec<Vec<usize>> = vec![vec![]];
    for &ty in tys {
        let mut next = Vec::new();
        for t in &out {
            for (hi, (hty, _)) in handles.iter().enumerate() {
                if *hty == ty { let mut t2 = t.clone(); t2.push(hi); next.push(t2); }
            }
        }
        out = next;
    }
    out
}

pub fn menu(th: &Theory, run: &Run, b: &Bounds, explored_ops: &[Op]) -> Vec<Op> {
    let mut m = Vec::new();
    let n_new = |t: usize| explored_ops.iter().filter(|o| matches!(o, Op::New(x) | Op::NewIn(x, _) if *x == t)).count();
    let n_def = explored_ops.iter().filter(|o| matches!(o, Op::Define(..) | Op::NewEnum(..))).count();
    let n_close = explored_ops.iter().filter(|o| matches!(o, Op::Close | Op::CloseUntil(_))).count();
    // facts: unary, then wider
    // corpus metadata may restrict the menu: `menu_rels` (only these relations are asserted by the driver) and
    // `no_insert` (witness predicates that only rules write); both only shrink the alphabet
    let listed = |key: &str, name: &str| th.meta.get(key).and_then(|v| v.as_array()).map(|a| a.iter().any(|x| x.as_str() == Some(name)));
    let mut rel_order: Vec<usize> = (0..th.rels.len())
        .filter(|&r| listed("menu_rels", &th.rels[r].name).unwrap_or(true) && !listed("no_insert", &th.rels[r].name).unwrap_or(false)).collect();
    rel_order.sort_by_key(|&r| th.rels[r].arity.len());
    for &r in &rel_order {
        for t in tuples_over(&run.handles, &th.rels[r].arity) { m.push(Op::Insert(r, t)); }
    }
    if n_def < b.max_defines {
        for &r in &rel_order {
            let rel = &th.rels[r];
            if !rel.is_func || !rel.can_define { continue; }
            let n = rel.arity.len() - 1;
            for t in tuples_over(&run.handles, &rel.arity[..n]) {
                if let Some(e) = rel.ctor_of { m.push(Op::NewEnum(e, r, t)); } else { m.push(Op::Define(r, t)); }
            }
        }
    }
    for ti in 0..th.types.len() {
        let hs: Vec<usize> = run.handles.iter().enumerate().filter(|(_, h)| h.0 == ti).map(|(i, _)| i).collect();
        for i in 0..hs.len() { for j in i + 1..hs.len() { m.push(Op::Equate(ti, hs[i], hs[j])); } }
    }
    // element creation during the search comes last: when a cap ends a level early, the histories
    // over the prelude's elements have been explored first
    let mut news = Vec::new();
    for (ti, t) in th.types.iter().enumerate() {
        if t.kind == TypeKind::Enum || n_new(ti) >= b.extra_new { continue; }
        match t.member_of {
            None => news.push(Op::New(ti)),
            Some(m) => for (hi, h) in run.handles.iter().enumerate() { if h.0 == m { news.push(Op::NewIn(ti, hi)); } }
        }
    }
    if n_close < b.max_closes {
        m.push(Op::Close);
        if b.close_until {
            for k in 1..=3 { m.push(Op::CloseUntil(Cond::Iter(k))); }
            m.push(Op::CloseUntil(Cond::True));
            let mut cond_order: Vec<usize> = (0..th.rels.len()).collect();
            cond_order.sort_by_key(|&r| th.rels[r].arity.len());
            for &r in &cond_order {
                let rel = &th.rels[r];
                if rel.is_func {
                    let n = rel.arity.len() - 1;
                    for t in tuples_over(&run.handles, &rel.arity[..n]) { m.push(Op::CloseUntil(Cond::Defined(r, t))); }
                } else {
                    for t in tuples_over(&run.handles, &rel.arity) { m.push(Op::CloseUntil(Cond::Holds(r, t))); }
                }
            }
            for ti in 0..th.types.len() {
                let hs: Vec<usize> = run.handles.iter().enumerate().filter(|(_, h)| h.0 == ti).map(|(i, _)| i).collect();
                for i in 0..hs.len() { for j in i + 1..hs.len() { m.push(Op::CloseUntil(Cond::Equal(ti, hs[i], hs[j]))); } }
            }
        }
    }
    m.extend(news);
    // Member types are dependent types: `x: m.S` is a typing judgement that the generated API cannot enforce.
    // The explored inputs respect it (an element lives in the model element it was created in): no direct writes to
    // the membership predicate, member relations only on members of the receiver, f@x only for x in dom(f) and with a
    // value in cod(f), equations only between members of the same parents.
    if th.types.iter().any(|t| t.member_of.is_some()) {
        let mut member: HashSet<(usize, usize)> = HashSet::new();
        let mut dom_of: HashMap<usize, Vec<usize>> = HashMap::new();
        let mut cod_of: HashMap<usize, Vec<usize>> = HashMap::new();
        for a in &run.assertions {
            if let Assertion::Insert { rel, args } = a {
                if th.types.iter().any(|t| t.membership == Some(*rel)) { member.insert((args[0], args[1])); }
                if th.rels[*rel].mor_sig.as_deref() == Some("dom") { dom_of.entry(args[0]).or_default().push(args[1]); }
                if th.rels[*rel].mor_sig.as_deref() == Some("cod") { cod_of.entry(args[0]).or_default().push(args[1]); }
            }
        }
        let is_member_ty = |t: usize| th.types[t].member_of.is_some();
        let parents = |h: usize| -> Vec<usize> { let mut v: Vec<usize> = member.iter().filter(|(_, x)| *x == h).map(|(p, _)| *p).collect(); v.sort(); v };
        let well_typed = |r: usize, args: &[usize]| -> bool {
            let rel = &th.rels[r];
            if th.types.iter().any(|t| t.membership == Some(r)) { return false; }
            if rel.mor_app {
                // f@x for x in dom(f); a directly asserted value must be a member of cod(f)
                let in_dom = dom_of.get(&args[0]).map_or(false, |ds| ds.iter().any(|d| member.contains(&(*d, args[1]))));
                let in_cod = args.len() < 3 || cod_of.get(&args[0]).map_or(false, |cs| cs.iter().any(|c| member.contains(&(*c, args[2]))));
                return in_dom && in_cod;
            }
            if rel.member_of.is_some() {
                return (1..args.len()).all(|i| !is_member_ty(rel.arity[i]) || member.contains(&(args[0], args[i])));
            }
            (0..args.len()).all(|i| !is_member_ty(rel.arity[i]))
        };
        m.retain(|op| match op {
            Op::Insert(r, a) => well_typed(*r, a),
            Op::Define(r, a) => well_typed(*r, a),
            Op::Equate(t, a, b) => !is_member_ty(*t) || parents(*a) == parents(*b),
            Op::CloseUntil(Cond::Holds(r, a)) => th.types.iter().any(|t| t.membership == Some(*r)) || well_typed(*r, a),
            Op::CloseUntil(Cond::Defined(r, a)) => well_typed(*r, a),
            _ => true,
        });
    }
    m
}

/// Creation-only prefixes from which the search starts.
pub fn preludes(th: &Theory, b: &Bounds) -> Vec<Vec<Op>> {
    let mut out = Vec::new();
    // elements of member types are created inside the model elements made so far, dealt round-robin
    fn add_members(th: &Theory, p: &mut Vec<Op>, count: &dyn Fn(usize) -> usize) {
        for (ti, t) in th.types.iter().enumerate() {
            let m = match t.member_of { Some(m) => m, None => continue };
            let parents: Vec<usize> = p.iter().enumerate().filter(|(_, o)| matches!(o, Op::New(x) if *x == m)).map(|(i, _)| i).collect();
            if parents.is_empty() { continue; }
            for j in 0..count(ti) { p.push(Op::NewIn(ti, parents[j % parents.len()])); }
        }
    }
    let counts: Vec<usize> = if b.prelude_elems >= 2 { vec![b.prelude_elems, 1] } else { vec![b.prelude_elems] };
    for n in counts {
        let mut p = Vec::new();
        let k_of = |ti: usize| th.meta.get("prelude").and_then(|m| m.get(&th.types[ti].name)).and_then(|x| x.as_u64()).map(|x| x as usize).unwrap_or(n);
        for (ti, t) in th.types.iter().enumerate() {
            if t.kind == TypeKind::Enum || t.member_of.is_some() { continue; }
            for _ in 0..k_of(ti) { p.push(Op::New(ti)); }
        }
        add_members(th, &mut p, &k_of);
        if !out.contains(&p) { out.push(p); }
    }
    // theories with a model declaration: additional start states in which a morphism chain is already in place
    // (objects o0 -> o1 [-> o2], signatures asserted, nothing closed yet), so that the depth budget is spent on member
    // facts, equalities and closes; the unwired preludes above keep "signature arrives later" in the search
    for (dom, dr) in th.rels.iter().enumerate().filter(|(_, r)| r.mor_sig.as_deref() == Some("dom")) {
        let cod = match th.rels.iter().position(|c| c.mor_sig.as_deref() == Some("cod") && c.arity == dr.arity) { Some(c) => c, None => continue };
        let (mor_ty, obj_ty) = (dr.arity[0], dr.arity[1]);
        for (n_obj, n_other) in [(2usize, 2usize), (3, 1)] {
            let mut p = Vec::new();
            let mut objs = Vec::new();
            let mut mors = Vec::new();
            for (ti, t) in th.types.iter().enumerate() {
                if t.kind == TypeKind::Enum || t.member_of.is_some() { continue; }
                let k = if ti == obj_ty { n_obj } else if ti == mor_ty { n_obj - 1 } else { n_other };
                for _ in 0..k {
                    if ti == obj_ty { objs.push(p.len()); }
                    if ti == mor_ty { mors.push(p.len()); }
                    p.push(Op::New(ti));
                }
            }
            // member types: n_obj elements, one per object (two in the first object when there are two objects)
            add_members(th, &mut p, &|_| if n_obj == 2 { 3 } else { n_obj });
            for (i, &m) in mors.iter().enumerate() {
                p.push(Op::Insert(dom, vec![m, objs[i]]));
                p.push(Op::Insert(cod, vec![m, objs[i + 1]]));
            }
            if !out.contains(&p) { out.push(p); }
        }
    }
    out
}

/// A wider start state for theories without model declarations: four interchangeable elements per type. From it only
/// histories that use the elements in canonical order are explored (symmetry reduction, see `symmetry_filter`), which
/// makes room for scenarios that need three or four elements within the same transition budget.
pub fn wide_prelude(th: &Theory, b: &Bounds) -> Option<Vec<Op>> {
    if th.types.iter().any(|t| matches!(t.kind, TypeKind::Model | TypeKind::Mor) || t.member_of.is_some()) { return None; }
    let n = th.meta.get("wide_prelude").and_then(|x| x.as_u64()).unwrap_or(4) as usize;
    if n <= b.prelude_elems || n == 0 { return None; }
    // only where the tuple space over n elements stays small (menus, point queries over all tuples of ids)
    let listed = |key: &str, name: &str| th.meta.get(key).and_then(|v| v.as_array()).map(|a| a.iter().any(|x| x.as_str() == Some(name)));
    let space: u64 = th.rels.iter().filter(|r| listed("menu_rels", &r.name).unwrap_or(true) && !listed("no_insert", &r.name).unwrap_or(false))
        .map(|r| (n as u64).pow(r.arity.len() as u32)).sum();
    if space > 200 || th.rels.iter().any(|r| r.arity.len() > 3) { return None; }
    let mut p = Vec::new();
    for (ti, t) in th.types.iter().enumerate() {
        if t.kind == TypeKind::Enum { continue; }
        for _ in 0..n { p.push(Op::New(ti)); }
    }
    if p.is_empty() { None } else { Some(p) }
}

/// Symmetry reduction for a start state whose first `prelude_len` handles are anonymous elements created by `new_`
/// and not yet distinguished by any fact: renaming such elements maps histories to histories with isomorphic
/// behaviour, so it suffices to explore those in which, per type, the not-yet-used elements enter in handle order.
/// (Behaviour that depends on the numeric ids themselves is not symmetric; the ordinary start states explore all
/// histories over two elements for that.)
pub fn symmetry_filter(th: &Theory, run: &Run, prelude_len: usize, ops: &mut Vec<Op>) {
    let mut used = vec![false; run.handles.len()];
    for h in prelude_len..run.handles.len() { used[h] = true; }
    for a in &run.assertions {
        match a {
            Assertion::Insert { args, .. } | Assertion::Define { args, .. } => for &h in args { used[h] = true; },
            Assertion::Equate { a, b, .. } => { used[*a] = true; used[*b] = true; }
            Assertion::New { .. } => {}
        }
    }
    let canonical = |args: &[usize], introduce: bool| -> bool {
        let mut used = used.clone();
        for &h in args {
            if used[h] { continue; }
            // h must be the smallest unused handle of its type
            let ty = run.handles[h].0;
            if (0..h).any(|g| !used[g] && run.handles[g].0 == ty) { return false; }
            if introduce { used[h] = true; } else { return false; }
        }
        true
    };
    let _ = th;
    ops.retain(|op| match op {
        Op::Insert(_, a) | Op::Define(_, a) | Op::NewEnum(_, _, a) => canonical(a, true),
        Op::Equate(_, a, b) => canonical(&[*a, *b], true),
        // conditions only mention elements that already occur in some fact
        Op::CloseUntil(Cond::Holds(_, a)) | Op::CloseUntil(Cond::Defined(_, a)) => canonical(a, false),
        Op::CloseUntil(Cond::Equal(_, a, b)) => canonical(&[*a, *b], false),
        Op::New(_) | Op::NewIn(..) => false,
        _ => true,
    });
}

// ------------------------------------------------------------------------------------------------
// Search
// ------------------------------------------------------------------------------------------------

pub struct TheoryResult {
    pub theory: String,
    pub states: u64,
    pub transitions: u64,
    pub closes: u64,
    pub nontrivial: u64,
    pub depth_completed: usize,
    pub capped: bool,
    pub cap_hit: &'static str,
    pub inconclusive: u64,
    pub max_close_iterations: u64,
    pub groups: u64,
    pub groups_nontrivial: u64,
    pub violations: Vec<Violation>,
    pub samples: Vec<Value>,
    pub transcripts: Vec<(u64, u64, String)>,
}

/// `closed`: the state's close()-successor was already computed when the state was discovered
/// `sym`: the start state's elements are interchangeable; only histories that use them in canonical order are explored
struct Node { history: Vec<Op>, explored_from: usize, transcript: u64, closed: bool, sym: bool }

struct SuccOut {
    /// operation applied to the node before `op` (close-on-discovery: `op` is then the Close applied to the successor)
    pre: Option<Op>,
    op: Op,
    key: (u64, u64),
    transcript: u64,
    step: StepOut,
    error: Option<String>,
    closed: Option<ClosedInfo>,
    nontrivial: bool,
}

pub struct ClosedInfo { pub structure: Structure, pub named: Vec<(String, usize, u32)>, pub canon: String }

pub fn replay_history<'a>(th: &'a Theory, make: fn() -> Box<dyn DynModel>, history: &[Op], oracles: &Oracles) -> Result<(Run<'a>, StepOut), String> {
    let mut run = Run::new(th, make);
    let mut out = StepOut::default();
    let quiet = oracles.quiet();
    for op in history { run.step(op, &quiet, &mut out)?; }
    Ok((run, out))
}

pub fn explore_theory(th: &Theory, make: fn() -> Box<dyn DynModel>, b: &Bounds, oracles: &Oracles) -> TheoryResult {
    let t0 = std::time::Instant::now();
    let mut res = TheoryResult { theory: th.name.clone(), states: 0, transitions: 0, closes: 0, nontrivial: 0, depth_completed: 0, capped: false, cap_hit: "",
        inconclusive: 0, max_close_iterations: 0, groups: 0, groups_nontrivial: 0, violations: vec![], samples: vec![], transcripts: vec![] };
    let mut seen: HashSet<(u64, u64)> = HashSet::new();
    let mut frontier: Vec<Node> = Vec::new();
    let mut viol_sigs: HashSet<String> = HashSet::new();
    let mut groups: HashMap<String, (ClosedInfo, Vec<Op>, u64)> = HashMap::new();
    let mut start_list: Vec<(Vec<Op>, bool)> = preludes(th, b).into_iter().map(|p| (p, false)).collect();
    if let Some(w) = wide_prelude(th, b) { if !start_list.iter().any(|(p, _)| *p == w) { start_list.push((w, true)); } }
    for (p, sym) in start_list {
        match replay_history(th, make, &p, oracles) {
            Ok((run, _)) => {
                if seen.insert(run.key()) {
                    let mut h = std::collections::hash_map::DefaultHasher::new();
                    run.transcript.clone().finish().hash(&mut h);
                    frontier.push(Node { explored_from: p.len(), history: p, transcript: run.transcript.clone().finish(), closed: false, sym });
                }
            }
            Err(e) => { res.violations.push(Violation { sig: format!("{}:prelude", th.name), summary: e.clone(), replay: json!({"theory": th.name, "history": history_json(th, &p), "message": e}) }); }
        }
    }
    res.states = seen.len() as u64;
    // every start state (prelude) gets the same share of the transition budget, so that a cap never starves the later ones
    // (smallest start state first; what one does not use is passed on to the later ones)
    let mut starts: Vec<Node> = std::mem::take(&mut frontier);
    starts.sort_by_key(|n| n.history.len());
    let n_starts = starts.len();
    let mut any_capped = false;
    let mut min_depth: Option<usize> = None;
    for (si, start) in starts.into_iter().enumerate() {
    let share = (b.trans_cap.saturating_sub(res.transitions as usize) / (n_starts - si)).max(1);
    let budget_end = res.transitions as usize + share;
    res.capped = false;
    let mut depth_here = 0usize;
    frontier = vec![start];
    for depth in 0..b.depth {
        let mut next: Vec<Node> = Vec::new();
        // the level is expanded in chunks so that the state / wall caps take effect inside a level
        let chunk_size = 512usize;
        let mut chunk_start = 0usize;
        while chunk_start < frontier.len() && !res.capped {
        let chunk_end = (chunk_start + chunk_size).min(frontier.len());
        let seen_ro = &seen;
        let expanded: Vec<(usize, Result<Vec<SuccOut>, String>)> = frontier[chunk_start..chunk_end].par_iter().enumerate().map(|(ci, node)| {
            let ni = chunk_start + ci;
            // rebuild the state by replay; the transcript of the prefix must be what it was (determinism)
            let base = match replay_history(th, make, &node.history, oracles) {
                Ok((run, _)) => run,
                Err(e) => return (ni, Err(format!("replay of an explored prefix failed: {e}"))),
            };
            if base.transcript.clone().finish() != node.transcript {
                return (ni, Err("NONDETERMINISM: replaying an explored history gave a different transcript".to_string()));
            }
            let mut ops = menu(th, &base, b, &node.history[node.explored_from..]);
            if node.sym { symmetry_filter(th, &base, node.explored_from, &mut ops); }
            if node.closed { ops.retain(|o| !matches!(o, Op::Close)); }
            let closes_so_far = node.history[node.explored_from..].iter().filter(|o| matches!(o, Op::Close | Op::CloseUntil(_))).count();
            if th.types.iter().any(|t| t.kind == TypeKind::Model) {
                // the property quantifies over acyclic morphism graphs (cycles are rejected by design):
                // keep only operations after which the free model's morphism graph is acyclic
                ops.retain(|op| match op_assertion(op) {
                    None => true,
                    Some(a) => {
                        let mut asserts = base.assertions.clone();
                        asserts.push(a);
                        if let Op::NewIn(t, p) = op { asserts.push(Assertion::Insert { rel: th.types[*t].membership.unwrap(), args: vec![*p, base.handles.len()] }); }
                        match chase(th, &asserts, oracles.elem_cap, oracles.round_cap, true) {
                            Ok(ch) => morphism_graph_acyclic(th, &ch.structure),
                            Err(_) => false,
                        }
                    }
                });
            }
            drop(base);
            let mut outs = Vec::new();
            for op in ops.iter() {
                let (mut run, _) = replay_history(th, make, &node.history, oracles).expect("prefix replays");
                let mut step = StepOut::default();
                let r = run.step(op, oracles, &mut step);
                let is_close = matches!(op, Op::Close) || matches!(op, Op::CloseUntil(_)) && step.returned == Some(false);
                let mut closed = None;
                let mut nontrivial = false;
                if r.is_ok() && is_close {
                    let s = dump_structure(th, &*run.model);
                    nontrivial = some_rule_matches(th, &s);
                    if oracles.c03 && !step.violations.iter().any(|v| v.0.starts_with("not-closed")) {
                        let (canon, names) = canonical_assertions(th, &run.assertions);
                        let roots = run.handle_roots();
                        let named = names.into_iter().enumerate().map(|(h, n)| (n, run.handles[h].0, roots[h])).collect();
                        closed = Some(ClosedInfo { named, canon, structure: s });
                    }
                }
                let ok = r.is_ok();
                let key = run.key();
                outs.push(SuccOut { pre: None, op: op.clone(), key, transcript: run.transcript.clone().finish(), step, error: r.err(), closed, nontrivial });
                // close-on-discovery: every state that is new (as far as known when this chunk started) is closed right
                // away, so that the closed-state oracles see every explored state and not only those that are expanded
                // again before a budget or the depth bound ends the search
                let is_closing = matches!(op, Op::Close | Op::CloseUntil(_));
                if ok && !is_closing && closes_so_far < b.max_closes && !seen_ro.contains(&key) {
                    let mut step2 = StepOut::default();
                    let r2 = run.step(&Op::Close, oracles, &mut step2);
                    let mut closed2 = None;
                    let mut nontrivial2 = false;
                    if r2.is_ok() {
                        let s = dump_structure(th, &*run.model);
                        nontrivial2 = some_rule_matches(th, &s);
                        if oracles.c03 && !step2.violations.iter().any(|v| v.0.starts_with("not-closed")) {
                            let (canon, names) = canonical_assertions(th, &run.assertions);
                            let roots = run.handle_roots();
                            let named = names.into_iter().enumerate().map(|(h, n)| (n, run.handles[h].0, roots[h])).collect();
                            closed2 = Some(ClosedInfo { named, canon, structure: s });
                        }
                    }
                    outs.push(SuccOut { pre: Some(op.clone()), op: Op::Close, key: run.key(), transcript: run.transcript.clone().finish(), step: step2, error: r2.err(), closed: closed2, nontrivial: nontrivial2 });
                }
            }
            (ni, Ok(outs))
        }).collect();
        chunk_start = chunk_end;
        for (ni, r) in expanded {
            let node = &frontier[ni];
            let outs = match r {
                Ok(o) => o,
                Err(e) => {
                    let sig = format!("{}:replay", th.name);
                    if viol_sigs.insert(sig.clone()) {
                        res.violations.push(Violation { sig, summary: e.clone(), replay: json!({"theory": th.name, "history": history_json(th, &node.history), "message": e}) });
                    }
                    continue;
                }
            };
            let mut last_plain_idx: Option<usize> = None;
            for o in outs {
                let op = &o.op;
                res.transitions += 1;
                // a close-on-discovery entry follows the successor it closes: that state need not be closed again
                if o.pre.is_some() { if let Some(i) = last_plain_idx.take() { next[i].closed = true; } } else { last_plain_idx = None; }
                res.inconclusive += o.step.inconclusive as u64;
                res.max_close_iterations = res.max_close_iterations.max(o.step.close_iterations);
                let mut hist = node.history.clone();
                if let Some(p) = &o.pre { hist.push(p.clone()); }
                hist.push(op.clone());
                let mut record = |sig: String, msg: String, res: &mut TheoryResult| {
                    if viol_sigs.insert(sig.clone()) && res.violations.len() < 60 {
                        res.violations.push(Violation { sig, summary: format!("[{}] after {} : {}", th.name, hist.iter().map(|x| x.show(th)).collect::<Vec<_>>().join("; "), msg),
                            replay: json!({"theory": th.name, "history": history_json(th, &hist), "message": msg}) });
                    }
                };
                if let Some(e) = &o.error {
                    if e.starts_with("INCONCLUSIVE") { res.inconclusive += 1; continue; }
                    record(format!("{}:{}", th.name, short_sig(e)), e.clone(), &mut res);
                    continue;
                }
                for (s, m) in &o.step.violations { record(format!("{}:{}", th.name, s), m.clone(), &mut res); }
                if matches!(op, Op::Close) { res.closes += 1; if o.nontrivial { res.nontrivial += 1; } }
                if let Some(ci) = o.closed {
                    match groups.get_mut(&ci.canon) {
                        None => { groups.insert(ci.canon.clone(), (ci, hist.clone(), 1)); }
                        Some((first, first_hist, count)) => {
                            *count += 1;
                            let mut ha = Vec::new(); let mut hb = Vec::new(); let mut hty = Vec::new();
                            let mut name_mismatch = None;
                            for (n, ty, root) in &ci.named {
                                match first.named.iter().find(|x| &x.0 == n) {
                                    Some((_, _, r2)) => { ha.push(*root); hb.push(*r2); hty.push(*ty); }
                                    None => { name_mismatch = Some(n.clone()); }
                                }
                            }
                            let cmp = match name_mismatch {
                                Some(n) => Err(format!("MACHINERY: canonical name {n} missing in the group representative")),
                                None => iso_modulo_handles(th, &ci.structure, &ha, &first.structure, &hb, &hty, false),
                            };
                            if let Err(m) = cmp {
                                let msg = format!("two histories asserting the same facts close to different models: this history vs. [{}]: {}",
                                    first_hist.iter().map(|x| x.show(th)).collect::<Vec<_>>().join("; "), m);
                                let sig = format!("{}:c03-group:{}", th.name, short_sig(&m));
                                if viol_sigs.insert(sig.clone()) && res.violations.len() < 60 {
                                    res.violations.push(Violation { sig, summary: format!("[{}] after {} : {}", th.name, hist.iter().map(|x| x.show(th)).collect::<Vec<_>>().join("; "), msg),
                                        replay: json!({"theory": th.name, "history": history_json(th, &hist), "other_history": history_json(th, first_hist), "message": msg}) });
                                }
                            }
                        }
                    }
                }
                if seen.insert(o.key) {
                    if res.samples.len() < 3 && hist.len() >= node.explored_from + 3 && matches!(op, Op::Close) { res.samples.push(history_json(th, &hist)["text"].clone()); }
                    if oracles.collect_transcripts { res.transcripts.push((hash_history(&hist), o.transcript, hist.iter().map(|x| x.show(th)).collect::<Vec<_>>().join("; "))); }
                    next.push(Node { history: hist, explored_from: node.explored_from, transcript: o.transcript, closed: false, sym: node.sym });
                    if o.pre.is_none() && !matches!(op, Op::Close | Op::CloseUntil(_)) { last_plain_idx = Some(next.len() - 1); }
                }
            }
            if seen.len() > b.state_cap || res.transitions as usize > budget_end { res.capped = true; res.cap_hit = "transition/state budget"; break; }
            if t0.elapsed().as_secs() > b.wall_cap_s { res.capped = true; res.cap_hit = "wall-clock safety net"; break; }
        }
        }
        res.states = seen.len() as u64;
        if res.capped { break; }
        depth_here = depth + 1;
        if next.is_empty() { break; }
        frontier = next;
    }
    any_capped |= res.capped;
    min_depth = Some(min_depth.map_or(depth_here, |d| d.min(depth_here)));
    }
    res.capped = any_capped;
    res.depth_completed = min_depth.unwrap_or(0);
    res.groups = groups.len() as u64;
    res.groups_nontrivial = groups.values().filter(|g| g.2 >= 2).count() as u64;
    if res.samples.is_empty() {
        if let Some(n) = frontier.last() { res.samples.push(history_json(th, &n.history)["text"].clone()); }
    }
    res
}

pub fn op_assertion(op: &Op) -> Option<Assertion> {
    match op {
        Op::New(t) | Op::NewIn(t, _) => Some(Assertion::New { ty: *t }),
        Op::NewEnum(_, c, a) => Some(Assertion::Define { rel: *c, args: a.clone() }),
        Op::Define(r, a) => Some(Assertion::Define { rel: *r, args: a.clone() }),
        Op::Insert(r, a) => Some(Assertion::Insert { rel: *r, args: a.clone() }),
        Op::Equate(t, a, b) => Some(Assertion::Equate { ty: *t, a: *a, b: *b }),
        Op::Close | Op::CloseUntil(_) => None,
    }
}

/// Do the morphisms with a defined domain and codomain form an acyclic graph on the objects?
pub fn morphism_graph_acyclic(th: &Theory, s: &Structure) -> bool {
    let mut edges: Vec<(u32, u32)> = Vec::new();
    let mut doms: Vec<(usize, usize)> = Vec::new(); // (dom rel, cod rel) per model
    for (ri, r) in th.rels.iter().enumerate() {
        if r.mor_sig.as_deref() == Some("dom") {
            if let Some(ci) = th.rels.iter().position(|c| c.mor_sig.as_deref() == Some("cod") && c.arity == r.arity) { doms.push((ri, ci)); }
        }
    }
    for (d, c) in doms {
        for td in &s.rels[d] { for tc in &s.rels[c] { if td[0] == tc[0] { edges.push((td[1], tc[1])); } } }
    }
    // iterated removal of nodes without incoming edges
    let mut nodes: std::collections::BTreeSet<u32> = edges.iter().flat_map(|e| [e.0, e.1]).collect();
    loop {
        let removable: Vec<u32> = nodes.iter().copied().filter(|n| !edges.iter().any(|e| e.1 == *n && nodes.contains(&e.0))).collect();
        if removable.is_empty() { break; }
        for n in removable { nodes.remove(&n); }
    }
    nodes.is_empty()
}

pub fn hash_history(h: &[Op]) -> u64 {
    let mut s = std::collections::hash_map::DefaultHasher::new();
    h.hash(&mut s);
    s.finish()
}

pub fn short_sig(msg: &str) -> String {
    // keep the leading words, drop concrete ids
    let cleaned: String = msg.chars().map(|c| if c.is_ascii_digit() { '#' } else { c }).collect();
    let mut s: String = cleaned.split(|c| c == ':' || c == '[' || c == '(').next().unwrap_or("").trim().to_string();
    if s.len() > 80 { s.truncate(80); }
    s
}

/// Canonical form of an assertion set: duplicates removed, order ignored, and the anonymous
/// elements created by `new_` renamed by brute force over the permutations within each type.
pub fn canonical_assertions(th: &Theory, asserts: &[Assertion]) -> (String, Vec<String>) {
    // handle -> kind
    let mut handle_def: Vec<Option<(usize, Vec<usize>)>> = Vec::new(); // Define handles
    let mut handle_ty: Vec<usize> = Vec::new();
    for a in asserts {
        match a {
            Assertion::New { ty } => { handle_def.push(None); handle_ty.push(*ty); }
            Assertion::Define { rel, args } => { handle_def.push(Some((*rel, args.clone()))); handle_ty.push(*th.rels[*rel].arity.last().unwrap()); }
            _ => {}
        }
    }
    let news_by_type: BTreeMap<usize, Vec<usize>> = {
        let mut m: BTreeMap<usize, Vec<usize>> = BTreeMap::new();
        for (h, d) in handle_def.iter().enumerate() { if d.is_none() { m.entry(handle_ty[h]).or_default().push(h); } }
        m
    };
    // enumerate permutations per type (product)
    fn perms(v: &[usize]) -> Vec<Vec<usize>> {
        if v.len() <= 1 { return vec![v.to_vec()]; }
        let mut out = Vec::new();
        for i in 0..v.len() {
            let mut rest = v.to_vec();
            let x = rest.remove(i);
            for mut p in perms(&rest) { p.insert(0, x); out.push(p); }
        }
        out
    }
    let types: Vec<usize> = news_by_type.keys().copied().collect();
    let per_type: Vec<Vec<Vec<usize>>> = types.iter().map(|t| perms(&news_by_type[t])).collect();
    let mut choice = vec![0usize; types.len()];
    let mut best: Option<(String, Vec<String>)> = None;
    loop {
        let mut name: Vec<Option<String>> = vec![None; handle_def.len()];
        for (ti, t) in types.iter().enumerate() {
            for (pos, &h) in per_type[ti][choice[ti]].iter().enumerate() { name[h] = Some(format!("n{}_{}", t, pos)); }
        }
        // Define handles are named by their defining term
        fn nm(h: usize, name: &mut Vec<Option<String>>, defs: &Vec<Option<(usize, Vec<usize>)>>) -> String {
            if let Some(n) = &name[h] { return n.clone(); }
            let (rel, args) = defs[h].clone().unwrap();
            let a: Vec<String> = args.iter().map(|&x| nm(x, name, defs)).collect();
            let n = format!("f{}({})", rel, a.join(","));
            name[h] = Some(n.clone());
            n
        }
        for h in 0..handle_def.len() { nm(h, &mut name, &handle_def); }
        let name: Vec<String> = name.into_iter().map(|n| n.unwrap()).collect();
        let mut lines: Vec<String> = Vec::new();
        for a in asserts {
            lines.push(match a {
                Assertion::New { ty } => format!("el:{}", ty),
                Assertion::Define { rel, args } => format!("def:{}({})", rel, args.iter().map(|&h| name[h].clone()).collect::<Vec<_>>().join(",")),
                Assertion::Insert { rel, args } => format!("ins:{}({})", rel, args.iter().map(|&h| name[h].clone()).collect::<Vec<_>>().join(",")),
                Assertion::Equate { a, b, .. } => { let (x, y) = (name[*a].clone(), name[*b].clone()); if x <= y { format!("eq:{x}={y}") } else { format!("eq:{y}={x}") } }
            });
        }
        lines.sort();
        // `el:` lines keep their multiplicity (number of elements created), everything else is a set
        let mut dedup: Vec<String> = Vec::new();
        for l in lines { if l.starts_with("el:") || dedup.last() != Some(&l) { dedup.push(l); } }
        let s = dedup.join(";");
        if best.as_ref().map_or(true, |b| s < b.0) { best = Some((s, name)); }
        // next choice
        let mut i = 0;
        loop {
            if i == types.len() { return best.unwrap(); }
            choice[i] += 1;
            if choice[i] < per_type[i].len() { break; }
            choice[i] = 0;
            i += 1;
        }
    }
}

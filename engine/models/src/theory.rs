//! The source-level description of a theory (produced by /verif/lib/eqlparse.py from the .eql text,
//! independent of every eqlog pass).
use serde_json::Value;
use std::collections::HashMap;

#[derive(Clone, Debug, PartialEq, Eq)]
pub enum TypeKind { Plain, Enum, Model, Mor }

#[derive(Clone, Debug)]
pub struct TypeDecl {
    pub name: String,
    pub kind: TypeKind,
    /// member types: the model type they belong to and the membership predicate
    pub member_of: Option<usize>,
    pub membership: Option<usize>,
}

#[derive(Clone, Debug)]
pub struct RelDecl {
    pub name: String,
    pub is_func: bool,
    /// argument types; for functions the result type is last
    pub arity: Vec<usize>,
    pub ctor_of: Option<usize>,
    pub member_of: Option<usize>,
    pub can_define: bool,
    pub mor_sig: Option<String>,
    pub src_name: Option<String>,
    /// the morphism-application function `<type>_mor_app(f, x)` of a member type
    pub mor_app: bool,
}

#[derive(Clone, Debug, PartialEq, Eq)]
pub enum NaturalParent { None, Arg0 { membership: usize }, CodOfArg0 { cod: usize, membership: usize }, Unsupported }

#[derive(Clone, Debug)]
pub enum Term { Var(usize), App(usize, Vec<Term>) }

#[derive(Clone, Debug)]
pub enum Atom {
    Pred(usize, Vec<Term>),
    Eq(Term, Term),
    Defined(Term, Option<usize>),
    Typed(Term, usize),
}

#[derive(Clone, Debug)]
pub struct PathAtom { pub is_then: bool, pub atom: Atom, pub line: u64 }

#[derive(Clone, Debug)]
pub struct Path {
    pub rule: String,
    pub atoms: Vec<PathAtom>,
    pub var_names: Vec<String>,
    pub var_types: Vec<usize>,
    pub builtin: bool,
}

#[derive(Clone, Debug)]
pub struct IndexField {
    pub field: String,
    pub arity: usize,
    pub rel: String,
    pub new_age: bool,
    pub eqs: Option<Vec<usize>>,
    pub order: Vec<usize>,
    pub member: Option<String>,
}

#[derive(Clone, Debug)]
pub struct Theory {
    pub name: String,
    pub types: Vec<TypeDecl>,
    pub rels: Vec<RelDecl>,
    pub paths: Vec<Path>,
    pub surjective: bool,
    pub meta: Value,
    pub index_fields: Vec<IndexField>,
    pub elem_fields: Vec<String>,
}

impl Theory {
    pub fn from_json(text: &str) -> Theory {
        let v: Value = serde_json::from_str(text).expect("theory json");
        let types: Vec<TypeDecl> = v["types"].as_array().unwrap().iter().map(|t| TypeDecl {
            name: t["name"].as_str().unwrap().to_string(),
            kind: match t["kind"].as_str().unwrap() { "plain" => TypeKind::Plain, "enum" => TypeKind::Enum, "model" => TypeKind::Model, _ => TypeKind::Mor },
            member_of: None, membership: None,
        }).collect();
        let mut types = types;
        let tix: HashMap<String, usize> = types.iter().enumerate().map(|(i, t)| (t.name.clone(), i)).collect();
        let rels: Vec<RelDecl> = v["rels"].as_array().unwrap().iter().map(|r| RelDecl {
            name: r["name"].as_str().unwrap().to_string(),
            is_func: r["kind"] == "func",
            arity: r["arity"].as_array().unwrap().iter().map(|t| tix[t.as_str().unwrap()]).collect(),
            ctor_of: r["ctor_of"].as_str().map(|t| tix[t]),
            member_of: r["member_of"].as_str().map(|t| tix[t]),
            can_define: r["can_define"].as_bool().unwrap_or(false),
            mor_sig: r.get("mor_sig").and_then(|x| x.as_str()).map(|s| s.to_string()),
            src_name: r.get("src_name").and_then(|x| x.as_str()).map(|s| s.to_string()),
            mor_app: r.get("mor_app_of").map_or(false, |x| x.is_string()),
        }).collect();
        let rix: HashMap<String, usize> = rels.iter().enumerate().map(|(i, r)| (r.name.clone(), i)).collect();
        for (i, t) in v["types"].as_array().unwrap().iter().enumerate() {
            if let Some(m) = t.get("member_of").and_then(|x| x.as_str()) {
                types[i].member_of = Some(tix[m]);
                types[i].membership = Some(rix[t["membership"].as_str().unwrap()]);
            }
        }
        let mut paths = Vec::new();
        for p in v["paths"].as_array().unwrap() {
            let mut var_names: Vec<String> = Vec::new();
            let mut var_types: Vec<usize> = Vec::new();
            let vt = p["vartypes"].as_object().unwrap();
            let mut vix: HashMap<String, usize> = HashMap::new();
            let mut var_of = |name: &str, var_names: &mut Vec<String>, var_types: &mut Vec<usize>| -> usize {
                if let Some(&i) = vix.get(name) { return i; }
                let i = var_names.len();
                vix.insert(name.to_string(), i);
                var_names.push(name.to_string());
                var_types.push(tix[vt[name].as_str().unwrap()]);
                i
            };
            fn term(t: &Value, rix: &HashMap<String, usize>, var_of: &mut dyn FnMut(&str) -> usize) -> Term {
                if let Some(n) = t.get("var") { return Term::Var(var_of(n.as_str().unwrap())); }
                let args = t["args"].as_array().unwrap().iter().map(|a| term(a, rix, var_of)).collect();
                Term::App(rix[t["app"].as_str().unwrap()], args)
            }
            let mut atoms = Vec::new();
            for a in p["atoms"].as_array().unwrap() {
                let at = &a["atom"];
                let mut vo = |n: &str| var_of(n, &mut var_names, &mut var_types);
                let atom = if let Some(pn) = at.get("pred") {
                    Atom::Pred(rix[pn.as_str().unwrap()], at["args"].as_array().unwrap().iter().map(|x| term(x, &rix, &mut vo)).collect())
                } else if let Some(e) = at.get("eq") {
                    Atom::Eq(term(&e[0], &rix, &mut vo), term(&e[1], &rix, &mut vo))
                } else if let Some(d) = at.get("defined") {
                    let t = term(d, &rix, &mut vo);
                    let b = at.get("bind").map(|b| vo(b.as_str().unwrap()));
                    Atom::Defined(t, b)
                } else {
                    let t = term(&at["typed"], &rix, &mut vo);
                    Atom::Typed(t, tix[at["type"].as_str().unwrap()])
                };
                atoms.push(PathAtom { is_then: a["kind"] == "then", atom, line: a["line"].as_u64().unwrap_or(0) });
            }
            paths.push(Path { rule: p["rule"].as_str().unwrap().to_string(), atoms, var_names, var_types, builtin: p["builtin"].as_bool().unwrap_or(false) });
        }
        let internal = &v["internal"];
        let index_fields = internal["index_fields"].as_array().map(|a| a.iter().map(|f| IndexField {
            field: f["field"].as_str().unwrap().to_string(),
            arity: f["arity"].as_u64().unwrap() as usize,
            rel: f["rel"].as_str().unwrap().to_string(),
            new_age: f["age"] == "new",
            eqs: f["eqs"].as_array().map(|e| e.iter().map(|x| x.as_u64().unwrap() as usize).collect()),
            order: f["order"].as_array().unwrap().iter().map(|x| x.as_u64().unwrap() as usize).collect(),
            member: f["member"].as_str().map(|s| s.to_string()),
        }).collect()).unwrap_or_default();
        let elem_fields = internal["elem_fields"].as_array().map(|a| a.iter().map(|x| x.as_str().unwrap().to_string()).collect()).unwrap_or_default();
        Theory {
            name: v["name"].as_str().unwrap().to_string(), types, rels, paths,
            surjective: v["surjective"].as_bool().unwrap(), meta: v["meta"].clone(), index_fields, elem_fields,
        }
    }
    /// Where does a *new* element that becomes the value of `f(args)` live? `define_f` and `f(..)!` create the
    /// value of a function whose result type is a member type inside a model element: the receiver for a member
    /// function, the codomain of the morphism for a morphism application (made defined if necessary).
    pub fn natural_parent(&self, f: usize) -> NaturalParent {
        let r = &self.rels[f];
        let res = *r.arity.last().unwrap();
        match self.types[res].membership {
            None => NaturalParent::None,
            Some(mem) => {
                if r.mor_app {
                    let cod = self.rels.iter().position(|c| c.mor_sig.as_deref() == Some("cod") && c.arity[0] == r.arity[0]).expect("cod of the morphism type");
                    NaturalParent::CodOfArg0 { cod, membership: mem }
                } else if r.member_of == self.types[res].member_of && r.member_of.is_some() {
                    NaturalParent::Arg0 { membership: mem }
                } else { NaturalParent::Unsupported }
            }
        }
    }
    pub fn rel_by_name(&self, n: &str) -> Option<usize> { self.rels.iter().position(|r| r.name == n) }
    pub fn type_by_snake(&self, n: &str) -> Option<usize> { self.types.iter().position(|t| snake(&t.name) == n) }
}

pub fn snake(name: &str) -> String {
    let cs: Vec<char> = name.chars().collect();
    let mut out = String::new();
    for (i, c) in cs.iter().enumerate() {
        if c.is_uppercase() {
            let prev_lower = i > 0 && (cs[i - 1].is_lowercase() || cs[i - 1].is_ascii_digit());
            let next_lower = i + 1 < cs.len() && cs[i + 1].is_lowercase();
            let prev_upper = i > 0 && cs[i - 1].is_uppercase();
            if prev_lower || (prev_upper && next_lower) { out.push('_'); }
            out.extend(c.to_lowercase());
        } else { out.push(*c); }
    }
    out
}

//! C16 — the semi-naive sub-rules emitted into the generated code enumerate exactly the matches that
//! contain a new tuple, once. For every rule family: every small labelled database (each tuple and
//! element old or new) is built on the real model, one real rule pass is executed, and the multiset of
//! rows pushed into the conclusion vectors is compared with a naive join over the flat premise printed
//! in the comment above the rule functions.
use crate::dynmodel::*;
use crate::theory::*;
use serde_json::{json, Value};
use std::collections::{BTreeMap, BTreeSet};

#[derive(Clone, Debug, PartialEq, Eq, PartialOrd, Ord)]
pub enum AtomRel { Rel(usize, Option<Vec<usize>>), TypeSet(usize) }

#[derive(Clone, Debug)]
pub struct FlatAtom { pub rel: AtomRel, pub args: Vec<String>, pub age: String }

#[derive(Clone, Debug, PartialEq, Eq, PartialOrd, Ord)]
pub enum Concl { Rel(usize, Vec<String>), Eq(usize, Vec<String>), Def(usize, Vec<String>) }

#[derive(Clone, Debug)]
pub struct SubRule { pub module: String, pub name: String, pub premise: Vec<FlatAtom>, pub conclusion: Vec<Concl>, pub reads: Vec<String> }

#[derive(Clone, Debug)]
pub struct Family { pub module: String, pub name: String, pub subs: Vec<SubRule>, pub functionality: bool }

fn rel_by_comment_name(th: &Theory, n: &str) -> Option<usize> {
    th.rels.iter().position(|r| r.name == n || r.src_name.as_deref() == Some(n)).or_else(|| th.rels.iter().position(|r| snake(n) == r.name))
}

fn parse_atom(th: &Theory, text: &str) -> Result<FlatAtom, String> {
    let text = text.trim();
    let (body, age) = match text.rfind(" [") {
        Some(i) if text.ends_with(']') => (&text[..i], text[i + 2..text.len() - 1].to_string()),
        _ => (text, String::new()),
    };
    let open = body.rfind('(').ok_or_else(|| format!("no argument list in {text}"))?;
    let args: Vec<String> = body[open + 1..body.len() - 1].split(',').map(|s| s.trim().to_string()).filter(|s| !s.is_empty()).collect();
    let head = &body[..open];
    if let Some(i) = head.find("[diag=") {
        let rel = rel_by_comment_name(th, &head[..i]).ok_or_else(|| format!("unknown relation in {text}"))?;
        let eqs: Vec<usize> = head[i + 6..head.len() - 1].split(',').map(|x| x.trim().parse().unwrap()).collect();
        return Ok(FlatAtom { rel: AtomRel::Rel(rel, Some(eqs)), args, age });
    }
    if let Some(r) = rel_by_comment_name(th, head) { return Ok(FlatAtom { rel: AtomRel::Rel(r, None), args, age }); }
    if let Some(t) = head.strip_suffix("Set").and_then(|t| th.types.iter().position(|x| x.name == t)) {
        return Ok(FlatAtom { rel: AtomRel::TypeSet(t), args, age });
    }
    Err(format!("cannot interpret premise atom {text}"))
}

fn parse_concl(th: &Theory, text: &str) -> Result<Concl, String> {
    let text = text.trim();
    let open = text.rfind('(').ok_or_else(|| format!("no argument list in {text}"))?;
    let args: Vec<String> = text[open + 1..text.len() - 1].split(',').map(|s| s.trim().to_string()).filter(|s| !s.is_empty()).collect();
    let head = &text[..open];
    if let Some(i) = head.find("==") {
        let t = th.types.iter().position(|x| x.name == head[..i]).ok_or_else(|| format!("unknown type in {text}"))?;
        return Ok(Concl::Eq(t, args));
    }
    if let Some(r) = rel_by_comment_name(th, head) { return Ok(Concl::Rel(r, args)); }
    if let Some(r) = head.strip_suffix("Def").and_then(|f| rel_by_comment_name(th, f)) { return Ok(Concl::Def(r, args)); }
    Err(format!("cannot interpret conclusion {text}"))
}

pub fn parse_families(th: &Theory, generated: &str) -> Result<Vec<Family>, String> {
    let lines: Vec<&str> = generated.lines().collect();
    let mut module = String::new();
    let mut subs: Vec<SubRule> = Vec::new();
    let mut i = 0;
    while i < lines.len() {
        let l = lines[i];
        if let Some(m) = l.strip_prefix("mod ").and_then(|x| x.strip_suffix(" {")) { module = m.trim().to_string(); }
        if let Some(n) = l.strip_prefix("// rule ").and_then(|x| x.strip_suffix(':')) {
            let name = n.to_string();
            let mut premise = Vec::new();
            let mut conclusion = Vec::new();
            let mut in_then = false;
            i += 1;
            while i < lines.len() && lines[i].starts_with("//") {
                let c = lines[i][2..].trim();
                if c == "if:" { in_then = false; } else if c == "then:" { in_then = true; }
                else if let Some(a) = c.strip_prefix("- ") {
                    if in_then { conclusion.push(parse_concl(th, a)?); } else { premise.push(parse_atom(th, a)?); }
                }
                i += 1;
            }
            // the function body: which index fields does it read?
            let mut reads = Vec::new();
            let mut j = i;
            while j < lines.len() && !lines[j].starts_with("// rule ") && !lines[j].starts_with("#[unsafe(no_mangle)]") {
                if let Some(k) = lines[j].find("env.") {
                    let f: String = lines[j][k + 4..].chars().take_while(|c| c.is_alphanumeric() || *c == '_').collect();
                    if f.contains("_order_") && !reads.contains(&f) { reads.push(f); }
                }
                j += 1;
            }
            subs.push(SubRule { module: module.clone(), name, premise, conclusion, reads });
            continue;
        }
        i += 1;
    }
    let mut fams: BTreeMap<(String, String), Family> = BTreeMap::new();
    for s in subs {
        let functionality = s.name.starts_with("functionality_");
        let fam_name = if functionality || s.premise.is_empty() { s.name.clone() } else {
            match s.name.rfind('_') { Some(k) if s.name[k + 1..].chars().all(|c| c.is_ascii_digit()) => s.name[..k].to_string(), _ => s.name.clone() }
        };
        fams.entry((s.module.clone(), fam_name.clone())).or_insert_with(|| Family { module: s.module.clone(), name: fam_name, subs: vec![], functionality }).subs.push(s);
    }
    Ok(fams.into_values().collect())
}

/// A labelled database over a two-element universe per type.
#[derive(Clone, Debug, Default)]
pub struct LabelledDb {
    /// per type: for each element index (0, 1): is it new?
    pub elem_new: Vec<Vec<bool>>,
    /// per relation: (tuple over element indices, is new)
    pub tuples: Vec<Vec<(Vec<u32>, bool)>>,
}

impl LabelledDb {
    pub fn to_json(&self, th: &Theory) -> Value {
        json!({
            "elements": self.elem_new.iter().enumerate().map(|(t, v)| json!({"type": th.types[t].name, "new": v})).collect::<Vec<_>>(),
            "tuples": self.tuples.iter().enumerate().filter(|(_, v)| !v.is_empty()).map(|(r, v)| json!({"rel": th.rels[r].name, "rows": v.iter().map(|(t, n)| json!({"row": t, "new": n})).collect::<Vec<_>>()})).collect::<Vec<_>>(),
        })
    }
    pub fn from_json(th: &Theory, v: &Value) -> LabelledDb {
        let mut db = LabelledDb { elem_new: vec![vec![]; th.types.len()], tuples: vec![vec![]; th.rels.len()] };
        for e in v["elements"].as_array().unwrap() {
            let t = th.types.iter().position(|x| x.name == e["type"].as_str().unwrap()).unwrap();
            db.elem_new[t] = e["new"].as_array().unwrap().iter().map(|b| b.as_bool().unwrap()).collect();
        }
        for e in v["tuples"].as_array().unwrap() {
            let r = th.rel_by_name(e["rel"].as_str().unwrap()).unwrap();
            db.tuples[r] = e["rows"].as_array().unwrap().iter().map(|x| (x["row"].as_array().unwrap().iter().map(|y| y.as_u64().unwrap() as u32).collect(), x["new"].as_bool().unwrap())).collect();
        }
        db
    }
}

/// Builds the database on a fresh real model. Returns the id of every (type, element index).
fn build(th: &Theory, make: fn() -> Box<dyn DynModel>, db: &LabelledDb) -> Result<(Box<dyn DynModel>, Vec<Vec<u32>>), String> {
    let mut m = make();
    let mut ids: Vec<Vec<u32>> = db.elem_new.iter().map(|v| vec![u32::MAX; v.len()]).collect();
    for phase_new in [false, true] {
        for (t, v) in db.elem_new.iter().enumerate() {
            for (i, &is_new) in v.iter().enumerate() {
                if is_new == phase_new {
                    if th.types[t].kind == TypeKind::Enum || th.types[t].member_of.is_some() { return Err("enum elements cannot be created without a constructor (nor member-type elements without a parent)".into()); }
                    ids[t][i] = m.new_el(t);
                }
            }
        }
        for (r, rows) in db.tuples.iter().enumerate() {
            for (row, is_new) in rows {
                if *is_new == phase_new {
                    let args: Vec<u32> = row.iter().enumerate().map(|(k, &x)| ids[th.rels[r].arity[k]][x as usize]).collect();
                    m.insert(r, &args);
                }
            }
        }
        if !phase_new { m.move_new_to_old_internal(); }
    }
    m.canonicalize_internal();
    Ok((m, ids))
}

type Rows = BTreeMap<(String, Vec<u32>), i64>;

/// All matches of a flat premise over the database; each with the flag "some matched tuple/element is new"
/// and, per atom, the matched row (for the functionality symmetry).
fn matches(th: &Theory, db: &LabelledDb, ids: &[Vec<u32>], premise: &[FlatAtom]) -> Vec<(BTreeMap<String, u32>, bool)> {
    let mut envs: Vec<(BTreeMap<String, u32>, bool)> = vec![(BTreeMap::new(), false)];
    for atom in premise {
        let mut next = Vec::new();
        // candidate full rows of the atom with their newness
        let rows: Vec<(Vec<u32>, bool)> = match &atom.rel {
            AtomRel::TypeSet(t) => db.elem_new[*t].iter().enumerate().map(|(i, n)| (vec![ids[*t][i]], *n)).collect(),
            AtomRel::Rel(r, _) => db.tuples[*r].iter().map(|(row, n)| (row.iter().enumerate().map(|(k, &x)| ids[th.rels[*r].arity[k]][x as usize]).collect(), *n)).collect(),
        };
        for (env, newness) in &envs {
            for (row, n) in &rows {
                // project through the diagonal pattern
                let reduced: Option<Vec<u32>> = match &atom.rel {
                    AtomRel::Rel(_, Some(eqs)) => {
                        if (0..row.len()).all(|p| row[p] == row[eqs[p]]) { Some((0..row.len()).filter(|&p| eqs[p] == p).map(|p| row[p]).collect()) } else { None }
                    }
                    _ => Some(row.clone()),
                };
                let reduced = match reduced { Some(x) => x, None => continue };
                if reduced.len() != atom.args.len() { continue; }
                let mut e = env.clone();
                let mut ok = true;
                for (a, v) in atom.args.iter().zip(reduced.iter()) {
                    match e.get(a) { Some(x) if x != v => { ok = false; break; } Some(_) => {} None => { e.insert(a.clone(), *v); } }
                }
                if ok { next.push((e, *newness || *n)); }
            }
        }
        envs = next;
    }
    envs
}

fn concl_row(th: &Theory, c: &Concl, env: &BTreeMap<String, u32>) -> Option<(String, Vec<u32>)> {
    let (vec_name, args) = match c {
        Concl::Rel(r, a) => (format!("new_{}", th.rels[*r].name), a),
        Concl::Eq(t, a) => (format!("new_{}_equalities", snake(&th.types[*t].name)), a),
        Concl::Def(r, a) => (format!("new_{}_def", th.rels[*r].name), a),
    };
    let row: Option<Vec<u32>> = args.iter().map(|x| env.get(x).copied()).collect();
    row.map(|r| (vec_name, r))
}

pub fn check_db(th: &Theory, make: fn() -> Box<dyn DynModel>, fams: &[Family], db: &LabelledDb) -> Result<(), String> {
    let (mut m, ids) = build(th, make, db)?;
    let pushed = std::panic::catch_unwind(std::panic::AssertUnwindSafe(|| m.rule_pass())).map_err(|_| "the rule pass panicked".to_string())?;
    let mut actual: Rows = BTreeMap::new();
    for (name, rows) in pushed { for r in rows { *actual.entry((name.to_string(), r)).or_default() += 1; } }
    let mut exact: Rows = BTreeMap::new();
    let mut sym_allowed: Rows = BTreeMap::new();
    let mut sym_required: Vec<((String, Vec<u32>), (String, Vec<u32>))> = Vec::new();
    for fam in fams {
        let premise = &fam.subs[0].premise;
        if premise.is_empty() {
            // rules with an empty premise are (documented) executed in every iteration
            for c in &fam.subs[0].conclusion { if let Some(k) = concl_row(th, c, &BTreeMap::new()) { *exact.entry(k).or_default() += 1; } }
            continue;
        }
        for (env, newness) in matches(th, db, &ids, premise) {
            if !newness { continue; }
            for c in &fam.subs[0].conclusion {
                let k = concl_row(th, c, &env).ok_or_else(|| format!("MACHINERY: conclusion variable of {} not bound by the premise in the comment", fam.name))?;
                if fam.functionality {
                    *sym_allowed.entry(k.clone()).or_default() += 1;
                    let mut rev = k.clone(); rev.1.reverse();
                    sym_required.push((k, rev));
                } else {
                    *exact.entry(k).or_default() += 1;
                }
            }
        }
    }
    // remainder = actual - exact must be explained by the (symmetric) functionality rules
    let mut remainder: Rows = actual.clone();
    for (k, n) in &exact {
        let a = remainder.entry(k.clone()).or_default();
        *a -= n;
    }
    for (k, n) in &remainder {
        if *n < 0 { return Err(format!("row {:?} should be pushed into {} {} time(s) (matches containing something new), but was pushed {} time(s)", k.1, k.0, exact[k], actual.get(k).copied().unwrap_or(0))); }
        if *n > 0 {
            let allowed = sym_allowed.get(k).copied().unwrap_or(0);
            if *n > allowed {
                return Err(format!("row {:?} was pushed into {} {} time(s) but only {} match(es) containing something new produce it: an all-old match is re-enumerated or a match is enumerated twice", k.1, k.0, actual[k], exact.get(k).copied().unwrap_or(0) + allowed));
            }
        }
    }
    for (a, b) in &sym_required {
        let n = remainder.get(a).copied().unwrap_or(0) + remainder.get(b).copied().unwrap_or(0);
        if n < 1 { return Err(format!("the functionality rule did not enumerate the pair of rows giving {:?} in {} in either order", a.1, a.0)); }
    }
    Ok(())
}

/// Static cross-checks on the text: all sub-rules of a family have the same atoms and conclusions;
/// the ages in the comment agree with the new/old index fields the function reads.
pub fn check_family_text(fam: &Family) -> Vec<String> {
    let mut out = Vec::new();
    let norm = |s: &SubRule| { let mut v: Vec<(AtomRel, Vec<String>)> = s.premise.iter().map(|a| (a.rel.clone(), a.args.clone())).collect(); v.sort(); v };
    let first = norm(&fam.subs[0]);
    for s in &fam.subs {
        if norm(s) != first { out.push(format!("sub-rule {} has different premise atoms than {}", s.name, fam.subs[0].name)); }
        let mut c1 = s.conclusion.clone(); c1.sort();
        let mut c0 = fam.subs[0].conclusion.clone(); c0.sort();
        if c1 != c0 { out.push(format!("sub-rule {} has different conclusions than {}", s.name, fam.subs[0].name)); }
        // ages vs fields read
        let wants_new = s.premise.iter().any(|a| a.age == "new" || a.age == "all");
        let wants_old = s.premise.iter().any(|a| a.age == "old" || a.age == "all");
        let reads_new = s.reads.iter().any(|f| f.contains("_new_"));
        let reads_old = s.reads.iter().any(|f| f.contains("_old_"));
        if !s.premise.is_empty() && (wants_new != reads_new || wants_old != reads_old) {
            out.push(format!("sub-rule {}: ages in the comment (new:{wants_new}, old:{wants_old}) disagree with the index fields read {:?}", s.name, s.reads));
        }
    }
    if !fam.functionality && fam.subs[0].premise.len() > 0 {
        let n = fam.subs[0].premise.len();
        if fam.subs.len() != n { out.push(format!("family {} has {} sub-rules for {} premise atoms", fam.name, fam.subs.len(), n)); }
    }
    out
}

pub struct C16Result { pub families: u64, pub dbs: u64, pub nontrivial: u64, pub violations: Vec<Value>, pub samples: Vec<Value>, pub capped: bool }

/// Enumerates labelled databases for the premise relations of one family, smallest first.
fn enumerate_dbs(th: &Theory, fam: &Family, max_rows_per_rel: usize, cap: usize, visit: &mut dyn FnMut(&LabelledDb) -> bool) -> bool {
    let premise = &fam.subs[0].premise;
    let mut rels: BTreeSet<usize> = BTreeSet::new();
    let mut tys: BTreeSet<usize> = BTreeSet::new();
    for a in premise {
        match &a.rel {
            AtomRel::Rel(r, _) => { rels.insert(*r); for &t in &th.rels[*r].arity { tys.insert(t); } }
            AtomRel::TypeSet(t) => { tys.insert(*t); }
        }
    }
    // element labellings: two elements per involved type, each old/new (old,old), (old,new), (new,new)
    let tys: Vec<usize> = tys.into_iter().collect();
    let mut elem_choices: Vec<Vec<Vec<bool>>> = vec![vec![]];
    for _ in &tys {
        let mut next = Vec::new();
        for c in &elem_choices { for lab in [vec![false, false], vec![false, true], vec![true, true]] { let mut c2 = c.clone(); c2.push(lab); next.push(c2); } }
        elem_choices = next;
    }
    // if no type-set atom is in the premise the element ages cannot matter: one labelling suffices
    let has_typeset = premise.iter().any(|a| matches!(a.rel, AtomRel::TypeSet(_)));
    if !has_typeset { elem_choices.truncate(1); }
    // per relation: all labelled subsets with <= max rows over {0,1}^arity
    let rels: Vec<usize> = rels.into_iter().collect();
    let mut per_rel: Vec<Vec<Vec<(Vec<u32>, bool)>>> = Vec::new();
    for &r in &rels {
        let n = th.rels[r].arity.len();
        let all: Vec<Vec<u32>> = (0..(1u32 << n)).map(|b| (0..n).map(|k| (b >> k) & 1).collect()).collect();
        let mut subsets: Vec<Vec<(Vec<u32>, bool)>> = vec![vec![]];
        // build by size
        let mut frontier: Vec<(usize, Vec<(Vec<u32>, bool)>)> = vec![(0, vec![])];
        // wide relations: fewer rows per database, so that the number of labelled subsets stays bounded
        // (C(|universe|, rows) * 2^rows <= 300 000)
        let mut rows_here = max_rows_per_rel.min(all.len());
        let count = |r: usize| -> f64 { let mut c = 1f64; for i in 0..r { c *= (all.len() - i) as f64 / (i + 1) as f64; } c * (1u64 << r) as f64 };
        while rows_here > 1 && count(rows_here) > 300_000.0 { rows_here -= 1; }
        for _ in 0..rows_here {
            let mut nf = Vec::new();
            for (start, s) in &frontier {
                for i in *start..all.len() {
                    for lab in [false, true] { let mut s2 = s.clone(); s2.push((all[i].clone(), lab)); nf.push((i + 1, s2)); }
                }
            }
            subsets.extend(nf.iter().map(|x| x.1.clone()));
            frontier = nf;
        }
        per_rel.push(subsets);
    }
    // product, ordered by total number of rows (so that a cap cuts off the largest databases only):
    // for each total, every composition of it into per-relation subset sizes, every choice of subsets of those sizes
    let mut by_size: Vec<Vec<Vec<usize>>> = Vec::new(); // relation -> size -> indices into per_rel[k]
    for subsets in &per_rel {
        let mut v: Vec<Vec<usize>> = vec![vec![]; max_rows_per_rel + 1];
        for (i, sub) in subsets.iter().enumerate() { v[sub.len()].push(i); }
        by_size.push(v);
    }
    let mut emitted = 0usize;
    let mut capped = false;
    let max_total = max_rows_per_rel * rels.len();
    'outer: for total in 0..=max_total {
        // compositions of `total` into rels.len() parts, each <= max_rows_per_rel
        let mut comp = vec![0usize; rels.len()];
        let mut comps: Vec<Vec<usize>> = Vec::new();
        fn rec(k: usize, left: usize, maxp: usize, comp: &mut Vec<usize>, out: &mut Vec<Vec<usize>>) {
            if k == comp.len() { if left == 0 { out.push(comp.clone()); } return; }
            for s in 0..=left.min(maxp) { comp[k] = s; rec(k + 1, left - s, maxp, comp, out); }
        }
        rec(0, total, max_rows_per_rel, &mut comp, &mut comps);
        for c in comps {
            let lists: Vec<&Vec<usize>> = c.iter().enumerate().map(|(k, &sz)| &by_size[k][sz]).collect();
            if lists.iter().any(|l| l.is_empty()) { continue; }
            let mut pos = vec![0usize; rels.len()];
            'prod: loop {
                for ec in &elem_choices {
                    let mut db = LabelledDb { elem_new: vec![vec![]; th.types.len()], tuples: vec![vec![]; th.rels.len()] };
                    for (k, &t) in tys.iter().enumerate() { db.elem_new[t] = ec[k].clone(); }
                    for (k, &r) in rels.iter().enumerate() { db.tuples[r] = per_rel[k][lists[k][pos[k]]].clone(); }
                    // a tuple cannot be older than one of its elements
                    let consistent = db.tuples.iter().enumerate().all(|(r, rows)| rows.iter().all(|(row, is_new)| *is_new || row.iter().enumerate().all(|(p, &x)| !db.elem_new[th.rels[r].arity[p]][x as usize])));
                    if !consistent { continue; }
                    emitted += 1;
                    if !visit(&db) { break 'outer; }
                    if emitted >= cap { capped = true; break 'outer; }
                }
                let mut k = 0;
                loop {
                    if k == rels.len() { break 'prod; }
                    pos[k] += 1;
                    if pos[k] < lists[k].len() { break; }
                    pos[k] = 0; k += 1;
                }
            }
        }
    }
    capped
}

pub fn run_theory(th: &Theory, e: &Entry, max_rows: usize, cap: usize, skip_functionality: bool) -> C16Result {
    let mut res = C16Result { families: 0, dbs: 0, nontrivial: 0, violations: vec![], samples: vec![], capped: false };
    let fams = match parse_families(th, e.generated) {
        Ok(f) => f,
        Err(m) => { res.violations.push(json!({"sig": format!("{}:c16:parse", th.name), "summary": format!("MACHINERY: {m}"), "replay": {"theory": th.name}})); return res; }
    };
    let mut sigs: BTreeSet<String> = BTreeSet::new();
    for fam in &fams {
        if fam.subs[0].premise.is_empty() { continue; }
        // corpus S repeats one signature 180 times: the databases of the implicit functionality rules are
        // enumerated there only in the thorough tier (they are still *checked* against every database of the other families)
        if skip_functionality && fam.functionality { continue; }
        res.families += 1;
        for msg in check_family_text(fam) {
            res.violations.push(json!({"sig": format!("{}:c16:text:{}", th.name, fam.name), "summary": format!("[{}] {}", th.name, msg), "replay": {"theory": th.name, "family": fam.name, "static": true}}));
        }
        let mut sample: Option<Value> = None;
        let mut stop_family = false;
        let capped = enumerate_dbs(th, fam, max_rows, cap, &mut |db: &LabelledDb| -> bool {
            res.dbs += 1;
            let n_rows: usize = db.tuples.iter().map(|v| v.len()).sum();
            if n_rows >= fam.subs[0].premise.len().min(2) {
                res.nontrivial += 1;
                if sample.is_none() && res.dbs % 7 == 3 { sample = Some(db.to_json(th)); }
            }
            match check_db(th, e.make, &fams, db) {
                Ok(()) => {}
                Err(msg) if msg.contains("enum elements cannot") => { stop_family = true; }
                Err(msg) => {
                    let sig = format!("{}:c16:{}:{}", th.name, fam.name, crate::explorer::short_sig(&msg));
                    if sigs.insert(sig.clone()) && res.violations.len() < 30 {
                        res.violations.push(json!({"sig": sig, "summary": format!("[{}] rule family {}: {} ; database {}", th.name, fam.name, msg, db.to_json(th)),
                            "replay": {"theory": th.name, "family": fam.name, "db": db.to_json(th), "message": msg}}));
                    }
                }
            }
            !stop_family
        });
        res.capped |= capped;
        if res.samples.len() < 2 { if let Some(db) = sample { res.samples.push(json!({"theory": th.name, "family": fam.name, "sub_rules": fam.subs.iter().map(|s| s.name.clone()).collect::<Vec<_>>(), "db": db})); } }
    }
    res
}

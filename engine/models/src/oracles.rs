//! Property oracles evaluated around the steps of the explorer.
use crate::dynmodel::*;
use crate::explorer::*;
use crate::refsem::*;
use crate::theory::*;
use std::collections::{BTreeMap, BTreeSet, HashMap};

#[derive(Clone, Debug, Default)]
pub struct Oracles {
    pub c01: bool,
    pub c02: bool,
    pub c03: bool,
    pub c04: bool,
    pub c05: bool,
    pub c06: bool,
    pub c07: bool,
    pub c15: bool,
    pub collect_transcripts: bool,
    pub elem_cap: usize,
    pub round_cap: usize,
}

impl Oracles {
    /// Oracles for replaying an already explored prefix: nothing is reported (the caller drops the
    /// output), but the C05 reference state must still follow every call.
    pub fn quiet(&self) -> Oracles { Oracles { elem_cap: self.elem_cap, round_cap: self.round_cap, c05: self.c05, ..Default::default() } }
    pub fn iteration_cap(&self, th: &Theory, m: &dyn DynModel) -> u64 {
        if !th.surjective { return 600; }
        let n: u64 = m.id_counters().iter().map(|&x| x as u64).sum::<u64>().max(1);
        let tuples: u64 = th.rels.iter().map(|r| n.saturating_pow(r.arity.len() as u32)).sum::<u64>() + 2;
        (16 * n * tuples).clamp(64, 200_000)
    }
}

fn has_models(th: &Theory) -> bool { th.types.iter().any(|t| t.kind == TypeKind::Model) }

pub struct PreClose { pub counters: Vec<usize>, pub classes: Vec<usize> }

impl PreClose {
    pub fn capture(run: &Run, _o: &Oracles) -> PreClose {
        let counters = run.model.id_counters();
        // number of classes before the close, from the union-find alone (the type sets may still
        // hold stale information before canonicalisation)
        let classes = (0..run.th.types.len()).map(|t| {
            let mut roots = BTreeSet::new();
            for i in 0..counters[t] as u32 { roots.insert(run.model.root(t, i)); }
            roots.len()
        }).collect();
        PreClose { counters, classes }
    }
}

pub fn after_close(run: &mut Run, cond: &Cond, returned: bool, o: &Oracles, pc: PreClose, out: &mut StepOut) {
    let th = run.th;
    let s = dump_structure(th, &*run.model);
    let roots = run.handle_roots();
    let htys = run.handle_types();
    let builtin = has_models(th);
    if !returned {
        let mut not_closed = false;
        if o.c01 || o.c07 {
            let unsat = check_closed(th, &s, builtin);
            not_closed = !unsat.is_empty();
            // diagnosis for model theories: does the violated rule instance depend on an inherited
            // tuple? (it does iff it is not a violation of the structure restricted to own tuples)
            let own_unsat: Vec<(String, usize, Vec<(String, u32)>)> = if builtin && not_closed {
                let s_own = own_structure(th, &*run.model, &s);
                check_closed(th, &s_own, false).into_iter().map(|u| (u.rule, u.atom_index, u.assignment)).collect()
            } else { vec![] };
            for u in unsat {
                let inherited = builtin && !u.rule.starts_with("(built-in)") && !own_unsat.iter().any(|x| x.0 == u.rule && x.1 == u.atom_index && x.2 == u.assignment);
                let tag = if inherited { ":uses-inherited-tuple" } else { "" };
                out.violations.push((format!("not-closed:{}:{}{}", u.rule, short_sig(&u.what), tag),
                    format!("after close() rule `{}` (line {}) is violated: {} under {:?}{}", u.rule, u.line, u.what, u.assignment,
                        if inherited { " (the match uses a member tuple inherited along a morphism)" } else { "" })));
            }
        }
        if o.c07 {
            if let Cond::Holds(..) | Cond::Equal(..) | Cond::Defined(..) | Cond::True = cond {
                if eval_cond(run, cond) { out.violations.push(("c07:false-but-holds".into(), "close_until returned false although the condition holds in the closed model".into())); }
            }
        }
        if o.c02 && !not_closed {
            match chase(th, &run.assertions, o.elem_cap, o.round_cap, builtin) {
                Ok(ch) => {
                    if let Err(m) = iso_modulo_handles(th, &s, &roots, &ch.structure, &ch.handles, &htys, false) {
                        out.violations.push((format!("not-free:{}", short_sig(&m)), format!("the closed model is not the free model of the assertions (first = closed model, second = reference chase): {m}")));
                    }
                }
                Err(_) => out.inconclusive += 1,
            }
        }
        if o.c06 && th.surjective {
            let counters = run.model.id_counters();
            if counters != pc.counters {
                out.violations.push(("c06:ids-allocated".into(), format!("close() allocated element ids on a program without `!`: id counters {:?} -> {:?}", pc.counters, counters)));
            }
            for t in 0..th.types.len() {
                if s.elems[t].len() > pc.classes[t] {
                    out.violations.push(("c06:classes-grew".into(), format!("type {} has {} elements after close(), {} before", th.types[t].name, s.elems[t].len(), pc.classes[t])));
                }
            }
        }
        if o.c15 { c15_check(run, &s, out); }
        if o.c03 {
            // close() on a closed model changes nothing observable
            let before = full_observation(th, &*run.model, &run.handles);
            let counters = run.model.id_counters();
            let cap = o.iteration_cap(th, &*run.model);
            let n = std::cell::Cell::new(0u64);
            let r = std::panic::catch_unwind(std::panic::AssertUnwindSafe(|| run.model.close_until(&|_m| { n.set(n.get() + 1); if n.get() > cap { std::panic::panic_any(PANIC_SENTINEL); } false })));
            if r.is_err() {
                out.violations.push(("c03:second-close-fails".into(), "a second close() on the closed model panicked or did not terminate".into()));
            } else {
                let after = full_observation(th, &*run.model, &run.handles);
                if before != after {
                    out.violations.push(("c03:close-not-idempotent".into(), format!("close() on a closed model changed it: before {before} after {after}")));
                }
                if counters != run.model.id_counters() {
                    out.violations.push(("c03:close-not-idempotent-ids".into(), "close() on a closed model allocated element ids".into()));
                }
            }
        }
    } else {
        if o.c07 {
            if let Cond::Holds(..) | Cond::Equal(..) | Cond::Defined(..) | Cond::False = cond {
                if !eval_cond(run, cond) { out.violations.push(("c07:true-but-fails".into(), "close_until returned true although the condition does not hold in the state it stopped in".into())); }
            }
            // nothing outside the free model: homomorphism into the reference chase
            match chase(th, &run.assertions, o.elem_cap, o.round_cap, builtin) {
                Ok(ch) => {
                    if let Err(m) = iso_modulo_handles(th, &s, &roots, &ch.structure, &ch.handles, &htys, true) {
                        out.violations.push((format!("c07:outside-free-model:{}", short_sig(&m)), format!("the state in which close_until stopped early contains something that is not in the free model: {m}")));
                    }
                }
                Err(_) => out.inconclusive += 1,
            }
        }
    }
    if o.c04 {
        let mut v = Vec::new();
        let at = if returned { "right after close_until returned true" } else { "right after close() returned" };
        c04_public(run, &s, at, &mut v);
        c04_internal(th, &*run.model, at, &mut v);
        out.violations.extend(v);
    }
}

fn eval_cond(run: &Run, cond: &Cond) -> bool {
    let ids = |a: &Vec<usize>| a.iter().map(|&h| run.handles[h].1).collect::<Vec<_>>();
    match cond {
        Cond::False => false,
        Cond::True => true,
        Cond::Holds(r, a) => run.model.holds(*r, &ids(a)),
        Cond::Equal(t, a, b) => run.model.are_equal(*t, run.handles[*a].1, run.handles[*b].1),
        Cond::Defined(r, a) => run.model.eval(*r, &ids(a)).is_some(),
        Cond::Iter(_) => true,
    }
}

/// Everything visible through the public API: iterators, classes of all ids, point queries over all ids.
pub fn full_observation(th: &Theory, m: &dyn DynModel, handles: &[(usize, u32)]) -> String {
    use std::fmt::Write;
    let mut s = observe(th, m, handles);
    let counters = m.id_counters();
    for t in 0..th.types.len() {
        for i in 0..counters[t] as u32 { write!(s, "r{}:{}>{};", t, i, m.root(t, i)).unwrap(); }
    }
    for (ri, r) in th.rels.iter().enumerate() {
        let tys = if r.is_func { &r.arity[..r.arity.len() - 1] } else { &r.arity[..] };
        for args in all_id_tuples(tys, &counters, 3000) {
            if r.is_func { write!(s, "q{}{:?}={:?};", ri, args, m.eval(ri, &args)).unwrap(); }
            else { write!(s, "q{}{:?}={};", ri, args, m.holds(ri, &args)).unwrap(); }
        }
    }
    s
}

fn all_id_tuples(tys: &[usize], counters: &[usize], cap: usize) -> Vec<Vec<u32>> {
    let mut out: Vec<Vec<u32>> = vec![vec![]];
    for &t in tys {
        let mut next = Vec::new();
        for x in &out { for i in 0..counters[t] as u32 { let mut y = x.clone(); y.push(i); next.push(y); } }
        out = next;
        if out.len() > cap { out.truncate(cap); }
    }
    out
}

// ------------------------------------------------------------------------------------------------ C04
fn c04_public(run: &Run, s: &Structure, at: &str, v: &mut Vec<(String, String)>) {
    let th = run.th;
    let m = &*run.model;
    let counters = m.id_counters();
    for t in 0..th.types.len() {
        let listed = m.iter_type(t);
        let set: BTreeSet<u32> = listed.iter().copied().collect();
        if set.len() != listed.len() { v.push(("c04:type-iter-duplicate".into(), format!("{at}: iter_{} yields an element twice: {listed:?}", snake(&th.types[t].name)))); }
        let mut roots = BTreeSet::new();
        for i in 0..counters[t] as u32 {
            let r = m.root(t, i);
            roots.insert(r);
            if !m.are_equal(t, i, r) || m.root(t, r) != r { v.push(("c04:root".into(), format!("{at}: root_{}({i}) = {r} is not an idempotent representative of the class", snake(&th.types[t].name)))); }
        }
        if roots != set { v.push(("c04:type-iter-classes".into(), format!("{at}: iter_{} yields {listed:?} but the classes of the allocated ids have representatives {roots:?}", snake(&th.types[t].name)))); }
    }
    for (ri, r) in th.rels.iter().enumerate() {
        let listed = m.iter_rel(ri);
        let set: BTreeSet<Vec<u32>> = listed.iter().cloned().collect();
        if set.len() != listed.len() { v.push((format!("c04:rel-iter-duplicate:{}", r.name), format!("{at}: iter_{} yields a tuple twice: {listed:?}", r.name))); }
        for t in &listed {
            for (i, x) in t.iter().enumerate() {
                if m.root(r.arity[i], *x) != *x { v.push((format!("c04:rel-iter-noncanonical:{}", r.name), format!("{at}: iter_{} yields the tuple {t:?} whose component {x} is not a root", r.name))); }
            }
        }
        // point queries agree with the iterator for every tuple of allocated ids (equal, non-root ids included)
        let tys = if r.is_func { &r.arity[..r.arity.len() - 1] } else { &r.arity[..] };
        for args in all_id_tuples(tys, &counters, 3000) {
            let rargs: Vec<u32> = args.iter().enumerate().map(|(i, x)| m.root(tys[i], *x)).collect();
            if r.is_func {
                let expect: Vec<u32> = set.iter().filter(|t| t[..rargs.len()] == rargs[..]).map(|t| t[rargs.len()]).collect();
                let got = m.eval(ri, &args);
                let ok = match got { None => expect.is_empty(), Some(g) => expect.contains(&m.root(*r.arity.last().unwrap(), g)) };
                if !ok { v.push((format!("c04:eval-vs-iter:{}", r.name), format!("{at}: {}({args:?}) = {got:?} but iter_{} has the values {expect:?} for the equal arguments {rargs:?}", r.name, r.name))); }
            } else {
                let expect = set.contains(&rargs);
                let got = m.holds(ri, &args);
                if got != expect { v.push((format!("c04:holds-vs-iter:{}", r.name), format!("{at}: {}({args:?}) = {got} but iter_{} {} the tuple {rargs:?} of equal elements", r.name, r.name, if expect { "contains" } else { "does not contain" }))); }
            }
        }
    }
    for (t, ty) in th.types.iter().enumerate() {
        if ty.kind != TypeKind::Enum { continue; }
        for &el in &s.elems[t] {
            let mut expect: BTreeSet<(usize, Vec<u32>)> = BTreeSet::new();
            for (ri, r) in th.rels.iter().enumerate() {
                if r.ctor_of != Some(t) { continue; }
                for tup in &s.rels[ri] { if *tup.last().unwrap() == el { expect.insert((ri, tup[..tup.len() - 1].to_vec())); } }
            }
            let got = std::panic::catch_unwind(std::panic::AssertUnwindSafe(|| m.enum_cases(t, el)));
            if let Ok(got) = got {
                let got: BTreeSet<(usize, Vec<u32>)> = got.into_iter().collect();
                if got != expect { v.push((format!("c04:cases-vs-graphs:{}", ty.name), format!("{at}: {}_cases({el}) = {got:?} but the constructor graphs give {expect:?}", snake(&ty.name)))); }
            }
        }
    }
}

/// All redundant private copies of a relation describe one set of tuples.
pub fn c04_internal(th: &Theory, m: &dyn DynModel, at: &str, v: &mut Vec<(String, String)>) {
    let rows = m.index_rows();
    let erows = m.elem_index_rows();
    // group index fields by relation name
    let mut by_rel: BTreeMap<&str, Vec<usize>> = BTreeMap::new();
    for (i, f) in th.index_fields.iter().enumerate() { by_rel.entry(f.rel.as_str()).or_default().push(i); }
    for (rel, fields) in by_rel {
        let rel_ix = th.rel_by_name(rel);
        let type_ix = if rel_ix.is_none() { th.type_by_snake(rel) } else { None };
        let arity: Vec<usize> = match (rel_ix, type_ix) {
            (Some(r), _) => th.rels[r].arity.clone(),
            (None, Some(t)) => vec![t],
            _ => { v.push(("c04:unknown-index".into(), format!("MACHINERY: index field group {rel} matches no relation or type"))); continue; }
        };
        let n = arity.len();
        let is_member = fields.iter().any(|&i| th.index_fields[i].member.is_some());
        let kinds: Vec<Option<&str>> = if is_member { vec![Some("own"), Some("all")] } else { vec![None] };
        let mut full_by_kind: HashMap<Option<&str>, BTreeSet<Vec<u32>>> = HashMap::new();
        for kind in &kinds {
            let mut per_age: Vec<Option<BTreeSet<Vec<u32>>>> = vec![None, None]; // [new, old]
            // plain copies
            for &i in &fields {
                let f = &th.index_fields[i];
                if f.member.as_deref() != *kind || f.eqs.is_some() { continue; }
                let mut set = BTreeSet::new();
                for s in &rows[i] {
                    let mut orig = vec![0u32; n];
                    for (k, &col) in f.order.iter().enumerate() { orig[col] = s[k]; }
                    set.insert(orig);
                }
                if set.len() != rows[i].len() { v.push((format!("c04:index-duplicate:{}", f.field), format!("{at}: index {} holds a row twice", f.field))); }
                let a = if f.new_age { 0 } else { 1 };
                match &per_age[a] {
                    None => per_age[a] = Some(set),
                    Some(prev) => if *prev != set {
                        v.push((format!("c04:copies-differ:{rel}"), format!("{at}: the {} copies of {rel} in different column orders hold different tuple sets: {:?} vs {:?} (field {})", if f.new_age {"new"} else {"old"}, prev, set, f.field)));
                    }
                }
            }
            let new = per_age[0].clone().unwrap_or_default();
            let old = per_age[1].clone().unwrap_or_default();
            if let Some(x) = new.intersection(&old).next() {
                v.push((format!("c04:new-old-overlap:{rel}"), format!("{at}: tuple {x:?} of {rel} is in the new and in the old copy")));
            }
            // diagonal copies
            for &i in &fields {
                let f = &th.index_fields[i];
                if f.member.as_deref() != *kind { continue; }
                let eqs = match &f.eqs { Some(e) => e, None => continue };
                let base = if f.new_age { &new } else { &old };
                let keep: Vec<usize> = (0..n).filter(|&p| eqs[p] == p).collect();
                let mut expect = BTreeSet::new();
                for t in base {
                    if (0..n).all(|p| t[p] == t[eqs[p]]) {
                        let proj: Vec<u32> = keep.iter().map(|&p| t[p]).collect();
                        let stored: Vec<u32> = f.order.iter().map(|&c| proj[c]).collect();
                        expect.insert(stored);
                    }
                }
                let got: BTreeSet<Vec<u32>> = rows[i].iter().cloned().collect();
                if got != expect {
                    v.push((format!("c04:diagonal-copy:{rel}"), format!("{at}: diagonal copy {} holds {:?} but the rows of the primary copy satisfying the pattern {:?} give {:?}", f.field, got, eqs, expect)));
                }
            }
            let full: BTreeSet<Vec<u32>> = new.union(&old).cloned().collect();
            full_by_kind.insert(*kind, full);
        }
        let visible = if is_member { &full_by_kind[&Some("all")] } else { &full_by_kind[&None] };
        let public: BTreeSet<Vec<u32>> = match (rel_ix, type_ix) {
            (Some(r), _) => m.iter_rel(r).into_iter().collect(),
            (None, Some(t)) => m.iter_type(t).into_iter().map(|x| vec![x]).collect(),
            _ => unreachable!(),
        };
        if *visible != public {
            v.push((format!("c04:indices-vs-iterator:{rel}"), format!("{at}: the index copies of {rel} hold {:?} but the public iterator yields {:?}", visible, public)));
        }
        if is_member {
            let own = &full_by_kind[&Some("own")];
            if !own.is_subset(visible) { v.push((format!("c04:own-not-in-all:{rel}"), format!("{at}: own tuples {:?} of {rel} are not all contained in the inherited copy {:?}", own, visible))); }
        }
        // element index: every stored row is listed under each of its distinct arguments
        if let Some(r) = rel_ix {
            let stored = if is_member { &full_by_kind[&Some("own")] } else { &full_by_kind[&None] };
            for t in stored {
                for p in 0..n {
                    let fname = format!("{}_{}_element_index", rel, snake(&th.types[arity[p]].name));
                    let fi = match th.elem_fields.iter().position(|x| *x == fname) { Some(i) => i, None => { v.push(("c04:no-element-index".into(), format!("MACHINERY: no field {fname}"))); continue; } };
                    let listed = erows[fi].iter().find(|(k, _)| *k == t[p]).map(|(_, rows)| rows.contains(t)).unwrap_or(false);
                    if !listed {
                        v.push((format!("c04:element-index:{}", th.rels[r].name), format!("{at}: row {t:?} of {} is not listed in the element index of its argument {}", th.rels[r].name, t[p])));
                    }
                }
            }
        }
    }
}

// ------------------------------------------------------------------------------------------------ C15
fn c15_check(run: &Run, s: &Structure, out: &mut StepOut) {
    let th = run.th;
    for (t, ty) in th.types.iter().enumerate() {
        if ty.kind != TypeKind::Enum { continue; }
        let mut els: BTreeSet<u32> = s.elems[t].clone();
        for (hty, id) in &run.handles { if *hty == t { els.insert(*id); } }
        for &el in &els {
            let r = std::panic::catch_unwind(std::panic::AssertUnwindSafe(|| run.model.enum_case(t, el)));
            match r {
                Err(_) => out.violations.push((format!("c15:case-panics:{}", ty.name), format!("{}_case({el}) panicked: the element is not the value of any constructor", snake(&ty.name)))),
                Ok((ctor, args)) => {
                    match run.model.eval(ctor, &args) {
                        Some(v) if run.model.are_equal(t, v, el) => {}
                        other => out.violations.push((format!("c15:case-wrong:{}", ty.name), format!("{}_case({el}) = {}({args:?}) but that application evaluates to {other:?}", snake(&ty.name), th.rels[ctor].name))),
                    }
                }
            }
        }
    }
    // new_<enum>(case) followed by cases contains case: checked for every NewEnum handle of the history
    let mut hi = 0usize;
    for a in &run.assertions {
        match a {
            Assertion::New { .. } => hi += 1,
            Assertion::Define { rel, args } => {
                if let Some(e) = th.rels[*rel].ctor_of {
                    let el = run.handles[hi].1;
                    let want: Vec<u32> = args.iter().map(|&h| run.handles[h].1).collect();
                    let cases = std::panic::catch_unwind(std::panic::AssertUnwindSafe(|| run.model.enum_cases(e, el))).unwrap_or_default();
                    let found = cases.iter().any(|(c, a)| c == rel && a.len() == want.len() && a.iter().zip(want.iter()).enumerate().all(|(i, (x, y))| run.model.are_equal(th.rels[*rel].arity[i], *x, *y)));
                    if !found { out.violations.push((format!("c15:new-enum-case-lost:{}", th.types[e].name), format!("after new_{}({}({want:?})) the cases of the result {el} are {cases:?}", snake(&th.types[e].name), th.rels[*rel].name))); }
                }
                hi += 1;
            }
            _ => {}
        }
    }
}

// ------------------------------------------------------------------------------------------------ C05
#[derive(Default, Clone)]
pub struct C05State {
    /// reference union-find per type over ids
    pub parent: Vec<Vec<u32>>,
    pub equated_since_close: bool,
}

pub struct C05Pre { counters: Vec<usize>, existing: Option<Vec<u32>>, had_value: bool }

impl C05State {
    fn find(&self, t: usize, mut x: u32) -> u32 { while self.parent[t][x as usize] != x { x = self.parent[t][x as usize]; } x }
    fn grow(&mut self, counters: &[usize]) {
        if self.parent.len() < counters.len() { self.parent.resize(counters.len(), vec![]); }
        for (t, &c) in counters.iter().enumerate() { while self.parent[t].len() < c { let i = self.parent[t].len() as u32; self.parent[t].push(i); } }
    }
}

pub fn c05_before(run: &mut Run, op: &Op) -> C05Pre {
    let th = run.th;
    let counters = run.model.id_counters();
    run.c05.grow(&counters);
    let mut existing = None;
    let mut had_value = false;
    match op {
        Op::Define(r, a) | Op::NewEnum(_, r, a) => {
            let n = a.len();
            let rargs: Vec<u32> = a.iter().enumerate().map(|(i, &h)| run.model.root(th.rels[*r].arity[i], run.handles[h].1)).collect();
            existing = Some(run.model.iter_rel(*r).into_iter().filter(|t| t[..n] == rargs[..]).map(|t| t[n]).collect());
        }
        Op::Insert(r, a) if th.rels[*r].is_func => {
            let n = a.len() - 1;
            let rargs: Vec<u32> = a[..n].iter().enumerate().map(|(i, &h)| run.model.root(th.rels[*r].arity[i], run.handles[h].1)).collect();
            had_value = run.model.iter_rel(*r).into_iter().any(|t| t[..n] == rargs[..]);
        }
        _ => {}
    }
    C05Pre { counters, existing, had_value }
}

pub fn c05_after(run: &mut Run, op: &Op, ret: Option<u32>, pre: C05Pre, out: &mut StepOut) {
    let th = run.th;
    let counters = run.model.id_counters();
    run.c05.grow(&counters);
    let quiet = !run.c05.equated_since_close;
    let mut bad = |sig: &str, msg: String| out.violations.push((format!("c05:{sig}"), msg));
    match op {
        Op::New(t) | Op::NewIn(t, _) => {
            let id = ret.unwrap();
            if (id as usize) < pre.counters[*t] { bad("new-not-fresh", format!("new_{}() returned {id}, an id that already existed", snake(&th.types[*t].name))); }
            for i in 0..counters[*t] as u32 { if i != id && run.model.are_equal(*t, i, id) { bad("new-not-distinct", format!("new element {id} is equal to the existing element {i}")); } }
        }
        Op::Define(r, _) | Op::NewEnum(_, r, _) => {
            let id = ret.unwrap();
            let rt = *th.rels[*r].arity.last().unwrap();
            if quiet {
                let existing = pre.existing.clone().unwrap_or_default();
                if existing.is_empty() {
                    if (id as usize) < pre.counters[rt] { bad("define-not-fresh", format!("define_{} on undefined arguments returned the existing id {id}", th.rels[*r].name)); }
                } else {
                    if !existing.iter().any(|&e| run.model.are_equal(rt, e, id)) { bad("define-ignores-value", format!("define_{} returned {id} although the function already had the value(s) {existing:?} on these arguments", th.rels[*r].name)); }
                    if counters != pre.counters { bad("define-allocates", format!("define_{} allocated an element although the function was already defined on the arguments", th.rels[*r].name)); }
                }
                // the application now evaluates to the returned element
                if let Op::Define(_, a) | Op::NewEnum(_, _, a) = op {
                    let ids: Vec<u32> = a.iter().map(|&h| run.handles[h].1).collect();
                    match run.model.eval(*r, &ids) {
                        Some(v) if pre.existing.as_ref().map_or(false, |e| e.len() > 1) || run.model.are_equal(rt, v, id) => {}
                        other => bad("define-not-visible", format!("after define_{} = {id} the evaluation gives {other:?}", th.rels[*r].name)),
                    }
                }
            }
        }
        Op::Insert(r, a) => {
            if quiet {
                let ids: Vec<u32> = a.iter().map(|&h| run.handles[h].1).collect();
                let rids: Vec<u32> = ids.iter().enumerate().map(|(i, x)| run.model.root(th.rels[*r].arity[i], *x)).collect();
                let listed = run.model.iter_rel(*r);
                let count = listed.iter().filter(|t| **t == rids).count();
                if count != 1 { bad("insert-iter", format!("after insert_{}({ids:?}) the iterator yields the tuple {count} times", th.rels[*r].name)); }
                // "reported once" up to equality: no second row whose components are equal to the inserted ones
                let arity = &th.rels[*r].arity;
                let equal_rows = listed.iter().filter(|t| t.iter().enumerate().all(|(i, x)| run.model.are_equal(arity[i], *x, ids[i]))).count();
                if count == 1 && equal_rows != 1 { bad("insert-iter-equal", format!("after insert_{}({ids:?}) the iterator yields {equal_rows} rows equal to the inserted tuple: {:?}", th.rels[*r].name, listed)); }
                if th.rels[*r].is_func {
                    let n = ids.len() - 1;
                    if !pre.had_value {
                        match run.model.eval(*r, &ids[..n]) {
                            Some(v) if run.model.are_equal(th.rels[*r].arity[n], v, ids[n]) => {}
                            other => bad("insert-eval", format!("after insert_{}({ids:?}) the evaluation gives {other:?}", th.rels[*r].name)),
                        }
                    }
                } else if !run.model.holds(*r, &ids) {
                    bad("insert-holds", format!("after insert_{}({ids:?}) the predicate query is false", th.rels[*r].name));
                }
            }
        }
        Op::Equate(t, a, b) => {
            let (x, y) = (run.c05.find(*t, run.handles[*a].1), run.c05.find(*t, run.handles[*b].1));
            if x != y { run.c05.parent[*t][x as usize] = y; }
            run.c05.equated_since_close = true;
        }
        Op::Close | Op::CloseUntil(_) => {}
    }
    if let Op::Close | Op::CloseUntil(_) = op { return; }
    for t in 0..th.types.len() {
        let n = counters[t] as u32;
        for i in 0..n {
            let r = run.model.root(t, i);
            if r >= n || run.c05.find(t, r) != run.c05.find(t, i) || run.model.root(t, r) != r {
                out.violations.push(("c05:root".into(), format!("root_{}({i}) = {r} is not an idempotent representative inside the class of {i}", snake(&th.types[t].name))));
            }
            for j in 0..n {
                let want = run.c05.find(t, i) == run.c05.find(t, j);
                if run.model.are_equal(t, i, j) != want {
                    out.violations.push(("c05:are-equal".into(), format!("are_equal_{}({i},{j}) = {} but the equalities of the last closed state plus the equate_ calls since then {} them", snake(&th.types[t].name), !want, if want { "identify" } else { "do not identify" })));
                }
            }
        }
    }
}

/// After close()/close_until() returned: re-seed the reference from the model's own equality at the
/// (possibly partially) closed state; what close() may and may not equate is C02's business.
pub fn c05_reseed(run: &mut Run) {
    let counters = run.model.id_counters();
    run.c05.grow(&counters);
    for t in 0..run.th.types.len() { for i in 0..counters[t] as u32 { run.c05.parent[t][i as usize] = run.model.root(t, i); } }
    run.c05.equated_since_close = false;
}

/// The structure with every member relation restricted to the tuples stored in the model itself
/// (asserted or derived there), i.e. without what was pushed forward along morphisms.
pub fn own_structure(th: &Theory, m: &dyn DynModel, s: &Structure) -> Structure {
    let rows = m.index_rows();
    let mut out = s.clone();
    for (ri, r) in th.rels.iter().enumerate() {
        if r.member_of.is_none() { continue; }
        let mut own = std::collections::BTreeSet::new();
        for (fi, f) in th.index_fields.iter().enumerate() {
            if f.rel == r.name && f.member.as_deref() == Some("own") && f.eqs.is_none() {
                for srow in &rows[fi] {
                    let mut orig = vec![0u32; r.arity.len()];
                    for (k, &col) in f.order.iter().enumerate() { orig[col] = srow[k]; }
                    own.insert(orig);
                }
            }
        }
        out.rels[ri] = own;
    }
    out
}

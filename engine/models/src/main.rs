//! Explorer for generated models: C01–C07, C15, C17, C20 (and C16/C19 drivers).
mod c16;
use modelapi::dynmodel;
mod explorer;
mod oracles;
mod refsem;
mod theory;

use explorer::*;
use oracles::Oracles;
use rayon::prelude::*;
use serde_json::{json, Value};
use theory::*;

fn arg(args: &[String], name: &str) -> Option<String> {
    args.iter().position(|a| a == name).and_then(|i| args.get(i + 1).cloned())
}
fn envu(k: &str, d: u64) -> u64 { std::env::var(k).ok().and_then(|s| s.parse().ok()).unwrap_or(d) }

fn oracles_for(prop: &str) -> Oracles {
    let mut o = Oracles { elem_cap: envu("VERIF_ELEM_CAP", 24) as usize, round_cap: envu("VERIF_ROUND_CAP", 200) as usize, ..Default::default() };
    match prop {
        "C01" => o.c01 = true,
        "C02" => o.c02 = true,
        "C03" => o.c03 = true,
        "C04" => o.c04 = true,
        "C05" => o.c05 = true,
        "C06" => o.c06 = true,
        "C07" => { o.c07 = true; o.c02 = true; o.c03 = true; }
        "C15" => o.c15 = true,
        "C17" => { o.c01 = true; o.c02 = true; o.c03 = true; }
        "C20" | "C19" => o.collect_transcripts = true,
        _ => {}
    }
    o
}

fn has_models(th: &Theory) -> bool { th.types.iter().any(|t| t.kind == TypeKind::Model) }
fn has_enums(th: &Theory) -> bool { th.types.iter().any(|t| t.kind == TypeKind::Enum) }

fn applicable(prop: &str, th: &Theory) -> bool {
    match prop {
        "C17" => has_models(th),
        "C06" => th.surjective && !has_models(th),
        "C15" => has_enums(th),
        _ => !has_models(th),
    }
}

fn bounds_for(prop: &str, tier: &str, th: &Theory) -> Bounds {
    let thorough = tier == "thorough";
    let m = |k: &str, d: u64| th.meta.get(k).and_then(|x| x.as_u64()).unwrap_or(d);
    let mut b = Bounds {
        depth: if thorough { m("depth_thorough", 6) } else { m("depth_quick", 4) } as usize,
        prelude_elems: m("elem_cap", 2) as usize,
        extra_new: m("extra_new", 1) as usize,   // also in the quick tier: an element created after a close is new while the rest is old
        max_defines: m("max_defines", if thorough { 2 } else { 1 }) as usize,
        max_closes: if thorough { 3 } else { 2 },
        state_cap: envu("VERIF_STATE_CAP", if thorough { 400_000 } else { 150_000 }) as usize,
        trans_cap: envu("VERIF_TRANS_CAP", if thorough { m("trans_cap_thorough", 600_000) } else { m("trans_cap_quick", 30_000) }) as usize,
        wall_cap_s: envu("VERIF_THEORY_WALL", if thorough { 1800 } else { 120 }),
        close_until: prop == "C07",
    };
    if th.meta.get("sweep").is_some() {
        // corpus S: many small theories, each with a small deterministic budget
        b.depth = if thorough { m("depth_thorough", 4) } else { m("depth_quick", 3) } as usize;
        b.trans_cap = envu("VERIF_SWEEP_TRANS_CAP", if thorough { 60_000 } else { 6_000 }) as usize;
        b.max_closes = 2;
    }
    if let Ok(d) = std::env::var("VERIF_DEPTH") { b.depth = d.parse().unwrap(); }
    if prop == "C17" { b.depth += 1; if th.meta.get("sweep").is_none() { b.trans_cap = envu("VERIF_TRANS_CAP", if thorough { 2_000_000 } else { 240_000 }) as usize; } }
    if prop == "C07" {
        // the budget goes into sequences of early exits and resumptions rather than into more elements
        b.extra_new = 0;
        b.max_closes = if thorough { 4 } else { 3 };
        if !thorough { b.state_cap = envu("VERIF_STATE_CAP", 60_000) as usize; }
    }
    b
}

fn main() {
    let args: Vec<String> = std::env::args().collect();
    let prop = args.get(1).cloned().unwrap_or_default();
    let tier = arg(&args, "--tier").unwrap_or_else(|| "quick".into());
    let only = arg(&args, "--only");
    std::panic::set_hook(Box::new(|_| {}));
    let reg = generated::registry();
    if let Some(path) = arg(&args, "--replay") {
        std::process::exit(replay(&prop, &path, &reg));
    }
    let t0 = std::time::Instant::now();
    if prop == "C16" {
        let thorough = tier == "thorough";
        let entries: Vec<(&dynmodel::Entry, Theory)> = reg.iter().map(|e| (e, Theory::from_json(e.ast_json)))
            .filter(|(e, _)| only.as_ref().map_or(true, |o| o.split(',').any(|x| x == e.name))).collect();
        let rs: Vec<(String, c16::C16Result)> = entries.par_iter().map(|(e, th)| (th.name.clone(), {
            let sweep = th.meta.get("sweep").is_some();
            let cap = if sweep { envu("VERIF_C16_SWEEP_CAP", if thorough { 100_000 } else { 1_500 }) } else { envu("VERIF_C16_CAP", if thorough { 600_000 } else { 60_000 }) };
            c16::run_theory(th, e, if thorough && !sweep { 3 } else { 2 }, cap as usize, !thorough && sweep)
        })).collect();
        let mut violations = Vec::new(); let mut samples = Vec::new(); let mut per = Vec::new();
        let (mut dbs, mut fams, mut nt) = (0u64, 0u64, 0u64);
        let mut capped = false;
        for (name, r) in rs {
            dbs += r.dbs; fams += r.families; nt += r.nontrivial; capped |= r.capped;
            violations.extend(r.violations);
            if samples.len() < 4 { samples.extend(r.samples.into_iter().take(1)); }
            per.push(json!({"theory": name, "rule_families": r.families, "labelled_databases": r.dbs, "capped": r.capped}));
        }
        let res = json!({"evaluations": dbs, "distinct_nontrivial": nt, "rule_families": fams,
            "rule": "for every rule family with a non-empty premise of every corpus theory: every labelled database (each tuple/element old or new) over two elements per type with at most N rows per premise relation is built on the real model and one real rule pass is run; non-trivial = databases with at least min(2, #atoms) rows",
            "max_rows_per_relation": if thorough { 3 } else { 2 }, "per_theory": per, "exhaustive": !capped, "samples": samples, "violations": violations,
            "wall_s": t0.elapsed().as_secs_f64()});
        let text = serde_json::to_string_pretty(&res).unwrap();
        match arg(&args, "--out") { Some(p) => std::fs::write(p, text).expect("write out"), None => println!("{text}") }
        return;
    }
    let oracles = oracles_for(&prop);
    let entries: Vec<(&dynmodel::Entry, Theory)> = reg.iter().map(|e| (e, Theory::from_json(e.ast_json)))
        .filter(|(e, th)| applicable(&prop, th) && only.as_ref().map_or(true, |o| o.split(',').any(|x| x == e.name))).collect();
    let results: Vec<TheoryResult> = entries.par_iter().map(|(e, th)| {
        let b = bounds_for(&prop, &tier, th);
        explore_theory(th, e.make, &b, &oracles)
    }).collect();
    let mut violations = Vec::new();
    let mut samples = Vec::new();
    let mut per_theory = Vec::new();
    let (mut states, mut transitions, mut closes, mut nontrivial, mut inconclusive, mut groups, mut groups_nt) = (0u64, 0u64, 0u64, 0u64, 0u64, 0u64, 0u64);
    let mut exhaustive = true;
    let mut transcripts = serde_json::Map::new();
    for r in &results {
        states += r.states; transitions += r.transitions; closes += r.closes; nontrivial += r.nontrivial; inconclusive += r.inconclusive;
        groups += r.groups; groups_nt += r.groups_nontrivial;
        exhaustive &= !r.capped;
        for v in &r.violations { violations.push(json!({"sig": v.sig, "summary": v.summary, "replay": v.replay, "theory": r.theory})); }
        if let Some(s) = r.samples.first() { if samples.len() < 6 { samples.push(json!({"theory": r.theory, "history": s})); } }
        per_theory.push(json!({"theory": r.theory, "states": r.states, "transitions": r.transitions, "closed_states": r.closes, "closed_states_with_a_rule_match": r.nontrivial,
            "depth_completed": r.depth_completed, "capped": r.capped, "cap_hit": r.cap_hit, "inconclusive": r.inconclusive, "max_close_iterations": r.max_close_iterations,
            "assertion_groups": r.groups, "groups_with_at_least_two_histories": r.groups_nontrivial}));
        if oracles.collect_transcripts {
            let mut h = std::collections::hash_map::DefaultHasher::new();
            use std::hash::{Hash, Hasher};
            let mut t: Vec<(u64, u64)> = r.transcripts.iter().map(|x| (x.0, x.1)).collect(); t.sort();
            t.hash(&mut h);
            transcripts.insert(r.theory.clone(), json!({"histories": t.len(), "digest": format!("{:016x}", h.finish()),
                "first": t.iter().take(3).map(|(a, b)| format!("{a:016x}:{b:016x}")).collect::<Vec<_>>() }));
        }
    }
    let mut static_scans = 0u64;
    if prop == "C15" {
        // static half: the generated API offers no call that creates an enum element without a constructor
        for (e, th) in &entries {
            for (ti, t) in th.types.iter().enumerate() {
                if t.kind != TypeKind::Enum { continue; }
                static_scans += 1;
                let plain_new = format!("pub fn new_{}(&mut self, )", snake(&t.name));
                let plain_new2 = format!("pub fn new_{}(&mut self)", snake(&t.name));
                if e.generated.contains(&plain_new) || e.generated.contains(&plain_new2) {
                    violations.push(json!({"sig": format!("{}:c15:plain-new:{}", th.name, t.name), "theory": th.name,
                        "summary": format!("[{}] the generated API has new_{}() without a constructor case", th.name, snake(&t.name)),
                        "replay": {"theory": th.name, "static": plain_new}}));
                }
                for r in &th.rels {
                    if r.is_func && *r.arity.last().unwrap() == ti && r.ctor_of.is_none() {
                        static_scans += 1;
                        let def = format!("pub fn define_{}(", r.name);
                        if e.generated.contains(&def) {
                            violations.push(json!({"sig": format!("{}:c15:define-non-ctor:{}", th.name, r.name), "theory": th.name,
                                "summary": format!("[{}] the generated API has define_{} for a non-constructor function into enum {}", th.name, r.name, t.name),
                                "replay": {"theory": th.name, "static": def}}));
                        }
                    }
                }
            }
        }
    }
    if let Some(path) = arg(&args, "--dump-transcripts") {
        use std::io::Write;
        let mut f = std::io::BufWriter::new(std::fs::File::create(path).expect("dump file"));
        for r in &results {
            let mut t = r.transcripts.clone();
            t.sort();
            for (h, tr, text) in t { writeln!(f, "{}\t{:016x}\t{:016x}\t{}", r.theory, h, tr, text).unwrap(); }
        }
    }
    let nt = if prop == "C03" { groups_nt } else { nontrivial };
    let mut res = json!({
        "states": states, "transitions": transitions, "traces_validated_against_impl": transitions, "evaluations": transitions,
        "distinct_nontrivial": nt,
        "rule": "a state is a distinct dump of all private fields of the generated model plus the handle environment, reached by an API history replayed on the real generated code; non-trivial = closed states in which some rule premise has a match (C03: assertion sets reached by at least two different histories)",
        "closed_states": closes, "inconclusive": inconclusive, "assertion_groups": groups, "groups_with_at_least_two_histories": groups_nt,
        "theories": per_theory.len(), "per_theory": per_theory, "exhaustive": exhaustive,
        "samples": samples, "violations": violations, "static_api_scans": static_scans,
        "wall_s": t0.elapsed().as_secs_f64(),
    });
    if oracles.collect_transcripts { res["transcripts"] = Value::Object(transcripts); }
    let text = serde_json::to_string_pretty(&res).unwrap();
    match arg(&args, "--out") { Some(p) => std::fs::write(p, text).expect("write out"), None => println!("{text}") }
}

fn replay(prop: &str, path: &str, reg: &[dynmodel::Entry]) -> i32 {
    let v: Value = serde_json::from_str(&std::fs::read_to_string(path).expect("replay file")).expect("json");
    let case = if v.get("replay").is_some() { v["replay"].clone() } else { v.clone() };
    let name = case["theory"].as_str().unwrap_or("");
    let e = match reg.iter().find(|e| e.name == name) { Some(e) => e, None => { println!("MACHINERY-ERROR theory {name} is not in this build"); return 2; } };
    let th = Theory::from_json(e.ast_json);
    let ops: Vec<Op> = case["history"]["ops"].as_array().unwrap().iter().map(Op::from_json).collect();
    let oracles = oracles_for(prop);
    let once = || -> Vec<String> {
        let mut run = Run::new(&th, e.make);
        let mut msgs = Vec::new();
        let n = ops.len();
        for (i, op) in ops.iter().enumerate() {
            let mut out = StepOut::default();
            let o = if i + 1 == n { oracles.clone() } else { oracles.quiet() };
            if let Err(m) = run.step(op, &o, &mut out) { msgs.push(m); break; }
            for (s, m) in out.violations { msgs.push(format!("{s}: {m}")); }
        }
        msgs
    };
    let a = once();
    let b = once();
    if a != b { println!("MACHINERY-ERROR nondeterministic replay"); return 2; }
    if a.is_empty() {
        println!("REPLAY-OK property={prop} theory={name}: no violation on this tree for {}", ops.iter().map(|o| o.show(&th)).collect::<Vec<_>>().join("; "));
        0
    } else {
        for m in &a { println!("REPLAY-VIOLATION property={prop} theory={name}: {m}"); }
        1
    }
}

"""C10 - the static checks accept exactly the well-formed programs and name the right error.
Family: curated well-formed base programs (corpus/g) + every single-site mutation of every base
(+ thorough: a bounded enumeration of small rules). Oracle: the reference static semantics."""
import copy, hashlib, json, multiprocessing, os, re, shutil, subprocess, sys, time
import common, refstatic
from eqlparse import Parser, ParseError

GDIR = os.path.join(common.ROOT, "corpus", "g")
WORK = os.path.join(common.BUILD, "c10")


# ------------------------------------------------------------------------------------------ printer
def p_type(te):
    return te["type"] if "type" in te else f"Mor({te['mor']})"


def p_term(t):
    if "wild" in t:
        return "_"
    if "var" in t:
        return t["var"]
    return f"{t['app']}({', '.join(p_term(a) for a in t['args'])})"


def p_atom(a):
    if "pred" in a:
        return f"{a['pred']}({', '.join(p_term(x) for x in a['args'])})"
    if "eq" in a:
        return f"{p_term(a['eq'][0])} = {p_term(a['eq'][1])}"
    if "defined" in a:
        if "bind" in a:
            return f"{p_term(a['bind'])} := {p_term(a['defined'])}!"
        return f"{p_term(a['defined'])}!"
    if "typed" in a:
        return f"{p_term(a['typed'])}: {p_type(a['type'])}"
    raise ValueError(a)


def p_stmts(stmts, ind):
    out = []
    pad = "    " * ind
    for s in stmts:
        if "if" in s:
            out.append(f"{pad}if {p_atom(s['if'])};")
        elif "then" in s:
            out.append(f"{pad}then {p_atom(s['then'])};")
        elif "branch" in s:
            for i, b in enumerate(s["branch"]):
                out.append(f"{pad}branch {{" if i == 0 else f"{pad}}} along {{")
                out += p_stmts(b, ind + 1)
            out.append(f"{pad}}}")
        elif "match" in s:
            out.append(f"{pad}match {p_term(s['match'])} {{")
            for c in s["cases"]:
                out.append(f"{pad}    {p_term(c['pattern'])} => {{")
                out += p_stmts(c["body"], ind + 2)
                out.append(f"{pad}    }}")
            out.append(f"{pad}}}")
    return out


def p_module(decls):
    out = []
    for d in decls:
        if d["k"] == "type":
            out.append(f"type {d['name']};")
        elif d["k"] == "pred":
            out.append(f"pred {d['name']}({', '.join(p_type(a) for a in d['args'])});")
        elif d["k"] == "func":
            out.append(f"func {d['name']}({', '.join(p_type(a) for a in d['args'])}) -> {p_type(d['result'])};")
        elif d["k"] == "enum":
            cs = ", ".join(f"{c['name']}({', '.join(p_type(a) for a in c['args'])})" for c in d["ctors"])
            out.append(f"enum {d['name']} {{ {cs} }}")
        elif d["k"] == "rule":
            out.append(f"rule {d['name']} {{" if d["name"] else "rule {")
            out += p_stmts(d["body"], 1)
            out.append("}")
    return "\n".join(out) + "\n"


# ------------------------------------------------------------------------------------------ mutation
def term_sites(decls):
    """Yields (path, term) for every term occurrence in rules; path = list of keys to reach it."""
    def in_term(t, path):
        yield path, t
        if "app" in t:
            for i, a in enumerate(t["args"]):
                yield from in_term(a, path + ["args", i])
    def in_atom(a, path):
        if "pred" in a:
            for i, x in enumerate(a["args"]):
                yield from in_term(x, path + ["args", i])
        elif "eq" in a:
            for i in (0, 1):
                yield from in_term(a["eq"][i], path + ["eq", i])
        elif "defined" in a:
            yield from in_term(a["defined"], path + ["defined"])
            if "bind" in a:
                yield from in_term(a["bind"], path + ["bind"])
        elif "typed" in a:
            yield from in_term(a["typed"], path + ["typed"])
    def in_stmts(stmts, path):
        for i, s in enumerate(stmts):
            if "if" in s:
                yield from in_atom(s["if"], path + [i, "if"])
            elif "then" in s:
                yield from in_atom(s["then"], path + [i, "then"])
            elif "branch" in s:
                for j, b in enumerate(s["branch"]):
                    yield from in_stmts(b, path + [i, "branch", j])
            elif "match" in s:
                yield from in_term(s["match"], path + [i, "match"])
                for j, c in enumerate(s["cases"]):
                    yield from in_term(c["pattern"], path + [i, "cases", j, "pattern"])
                    yield from in_stmts(c["body"], path + [i, "cases", j, "body"])
    for di, d in enumerate(decls):
        if d["k"] == "rule":
            yield from in_stmts(d["body"], [di, "body"])


def stmt_sites(decls):
    def in_stmts(stmts, path):
        for i, s in enumerate(stmts):
            yield path + [i], s
            if "branch" in s:
                for j, b in enumerate(s["branch"]):
                    yield from in_stmts(b, path + [i, "branch", j])
            elif "match" in s:
                for j, c in enumerate(s["cases"]):
                    yield from in_stmts(c["body"], path + [i, "cases", j, "body"])
    for di, d in enumerate(decls):
        if d["k"] == "rule":
            yield from in_stmts(d["body"], [di, "body"])


def get(obj, path):
    for k in path:
        obj = obj[k]
    return obj


def setp(obj, path, val):
    for k in path[:-1]:
        obj = obj[k]
    obj[path[-1]] = val


def delp(obj, path):
    for k in path[:-1]:
        obj = obj[k]
    del obj[path[-1]]


def is_then(path):
    return "then" in path


def mutants(decls):
    """All single-site mutations. Yields (label, mutated decls)."""
    names = {"pred": [d["name"] for d in decls if d["k"] == "pred"], "func": [d["name"] for d in decls if d["k"] == "func"],
             "type": [d["name"] for d in decls if d["k"] in ("type", "enum")],
             "ctor": [c["name"] for d in decls if d["k"] == "enum" for c in d["ctors"]]}
    # ---- declarations
    for di, d in enumerate(decls):
        if d["k"] in ("type", "pred", "func", "enum"):
            m = copy.deepcopy(decls); m.append(copy.deepcopy(d)); yield f"dup-decl:{di}", m
            m = copy.deepcopy(decls); del m[di]; yield f"drop-decl:{di}", m
        if d["k"] in ("pred", "func"):
            for ai in range(len(d["args"])):
                m = copy.deepcopy(decls); m[di]["args"][ai] = {"type": "Zz"}; yield f"decl-arg-undeclared:{di}.{ai}", m
                m = copy.deepcopy(decls); m[di]["args"][ai] = {"type": names["pred"][0]} if names["pred"] else {"type": "Zz"}; yield f"decl-arg-kind:{di}.{ai}", m
            m = copy.deepcopy(decls); m[di]["args"].append({"type": names["type"][0]}); yield f"decl-arg-added:{di}", m
            if d["args"]:
                m = copy.deepcopy(decls); m[di]["args"].pop(); yield f"decl-arg-dropped:{di}", m
        if d["k"] == "func":
            m = copy.deepcopy(decls); m[di]["result"] = {"type": "Zz"}; yield f"decl-result-undeclared:{di}", m
        if d["k"] == "rule" and d["name"] and names["pred"]:
            m = copy.deepcopy(decls); m[di]["name"] = names["pred"][0]; yield f"rule-named-like-pred:{di}", m
    # ---- statements
    for path, s in stmt_sites(decls):
        m = copy.deepcopy(decls); delp(m, path); yield f"drop-stmt:{path}", m
        if "if" in s:
            m = copy.deepcopy(decls); st = get(m, path); st["then"] = st.pop("if")
            if "typed" not in st["then"]:
                yield f"if-to-then:{path}", m
        if "then" in s and "bind" not in s["then"]:
            m = copy.deepcopy(decls); st = get(m, path); st["if"] = st.pop("then"); yield f"then-to-if:{path}", m
        if "then" in s and "defined" in s["then"]:
            a = s["then"]
            if "bind" in a:
                m = copy.deepcopy(decls); get(m, path)["then"]["bind"] = {"app": names["func"][0] if names["func"] else "zz", "args": []}; yield f"bind-not-var:{path}", m
                m = copy.deepcopy(decls); del get(m, path)["then"]["bind"]; yield f"bind-dropped:{path}", m
            else:
                m = copy.deepcopy(decls); get(m, path)["then"]["bind"] = {"var": "fresh_v"}; yield f"bind-added-unused:{path}", m
            for v in sorted(set(all_vars(decls))):
                m = copy.deepcopy(decls); get(m, path)["then"]["bind"] = {"var": v}; yield f"bind-existing:{path}:{v}", m
        if "match" in s:
            for j in range(len(s["cases"])):
                m = copy.deepcopy(decls); del get(m, path)["cases"][j]; yield f"drop-case:{path}.{j}", m
                m = copy.deepcopy(decls); get(m, path)["cases"][j]["pattern"] = {"var": "pv"}; yield f"pattern-var:{path}.{j}", m
                m = copy.deepcopy(decls); get(m, path)["cases"][j]["pattern"] = {"wild": True}; yield f"pattern-wild:{path}.{j}", m
                pat = s["cases"][j]["pattern"]
                if "app" in pat and pat["args"]:
                    m = copy.deepcopy(decls); get(m, path)["cases"][j]["pattern"]["args"][0] = {"app": names["func"][0], "args": [{"var": "nv"}]} if names["func"] else {"var": "nv"}
                    yield f"pattern-nested:{path}.{j}", m
                    for v in sorted(set(all_vars(decls))):
                        m = copy.deepcopy(decls); get(m, path)["cases"][j]["pattern"]["args"][0] = {"var": v}; yield f"pattern-arg-var:{path}.{j}:{v}", m
    # ---- atoms: predicate symbol
    for path, s in stmt_sites(decls):
        for kind in ("if", "then"):
            if kind in s and "pred" in s[kind]:
                a = s[kind]
                m = copy.deepcopy(decls); get(m, path)[kind]["pred"] = "zz"; yield f"pred-undeclared:{path}", m
                for f in names["func"][:2]:
                    m = copy.deepcopy(decls); get(m, path)[kind]["pred"] = f; yield f"pred-kind-func:{path}:{f}", m
                for t in names["type"][:1]:
                    m = copy.deepcopy(decls); get(m, path)[kind]["pred"] = t; yield f"pred-kind-type:{path}", m
                for p in names["pred"]:
                    if p != a["pred"]:
                        m = copy.deepcopy(decls); get(m, path)[kind]["pred"] = p; yield f"pred-other:{path}:{p}", m
                m = copy.deepcopy(decls); get(m, path)[kind]["args"].append({"var": first_var(a)}); yield f"pred-arg-added:{path}", m
                if a["args"]:
                    m = copy.deepcopy(decls); get(m, path)[kind]["args"].pop(); yield f"pred-arg-dropped:{path}", m
            if kind in s and "typed" in s[kind]:
                m = copy.deepcopy(decls); get(m, path)[kind]["type"] = {"type": "Zz"}; yield f"typed-undeclared:{path}", m
                for t in names["type"]:
                    if t != s[kind]["type"].get("type"):
                        m = copy.deepcopy(decls); get(m, path)[kind]["type"] = {"type": t}; yield f"typed-other:{path}:{t}", m
                if names["pred"]:
                    m = copy.deepcopy(decls); get(m, path)[kind]["type"] = {"type": names["pred"][0]}; yield f"typed-kind:{path}", m
    # ---- terms
    vs = sorted(set(all_vars(decls)))
    for path, t in term_sites(decls):
        if "bind" in path:
            continue
        m = copy.deepcopy(decls); setp(m, path, {"wild": True}); yield f"term-to-wildcard:{path}", m
        m = copy.deepcopy(decls); setp(m, path, {"var": "fresh_w"}); yield f"term-to-fresh-var:{path}", m
        for v in vs:
            if t.get("var") != v:
                m = copy.deepcopy(decls); setp(m, path, {"var": v}); yield f"term-to-var:{path}:{v}", m
        for f in names["func"] + names["ctor"]:
            ar = arity_of(decls, f)
            if ar == 1:
                m = copy.deepcopy(decls); setp(m, path, {"app": f, "args": [copy.deepcopy(t)]}); yield f"wrap:{path}:{f}", m
            if ar == 0:
                m = copy.deepcopy(decls); setp(m, path, {"app": f, "args": []}); yield f"term-to-const:{path}:{f}", m
        if "app" in t:
            m = copy.deepcopy(decls); get(m, path)["app"] = "zz"; yield f"func-undeclared:{path}", m
            for p in names["pred"][:1]:
                m = copy.deepcopy(decls); get(m, path)["app"] = p; yield f"func-kind-pred:{path}", m
            for f in names["func"] + names["ctor"]:
                if f != t["app"]:
                    m = copy.deepcopy(decls); get(m, path)["app"] = f; yield f"func-other:{path}:{f}", m
            m = copy.deepcopy(decls); get(m, path)["args"].append({"var": vs[0] if vs else "x"}); yield f"func-arg-added:{path}", m
            if t["args"]:
                m = copy.deepcopy(decls); get(m, path)["args"].pop(); yield f"func-arg-dropped:{path}", m
                m = copy.deepcopy(decls); setp(m, path, copy.deepcopy(t["args"][0])); yield f"unwrap:{path}", m


def all_vars(decls):
    for _, t in term_sites(decls):
        if "var" in t:
            yield t["var"]


def first_var(a):
    for x in a.get("args", []):
        if "var" in x:
            return x["var"]
    return "x"


def arity_of(decls, f):
    for d in decls:
        if d["k"] == "func" and d["name"] == f:
            return len(d["args"])
        if d["k"] == "enum":
            for c in d["ctors"]:
                if c["name"] == f:
                    return len(c["args"])
    return None


# ------------------------------------------------------------------------------------------ small-rule enumeration (thorough)
def enumerated_rules():
    """All rules `if A; [if B;] then C;` over a fixed signature with atoms from small pools."""
    sig = ("type A;\ntype B;\npred p(A);\npred q(A, A);\npred r(A, B);\nfunc f(A) -> A;\nfunc g(A) -> B;\nfunc c() -> A;\n")
    ifs = ["p(x)", "q(x, y)", "q(x, x)", "r(x, y)", "y = f(x)", "f(x)!", "x: A", "y: B", "x = y", "q(x, f(y))", "p(c())", "g(x) = y", "q(_, x)"]
    thens = ["p(x)", "q(x, y)", "q(y, x)", "r(x, y)", "x = y", "f(x) = y", "f(x)!", "p(f(x))", "z := f(x)!", "y := g(x)!", "r(x, g(x))", "c()!", "p(c())", "q(x, _)", "p(w)", "f(y) = g(x)"]
    out = []
    for i, a in enumerate(ifs):
        for k, c in enumerate(thens):
            out.append((f"e_{i}_x_{k}", sig + f"rule ra {{\n    if {a};\n    then {c};\n}}\n"))
            for j, b in enumerate(ifs):
                if j > i:
                    out.append((f"e_{i}_{j}_{k}", sig + f"rule ra {{\n    if {a};\n    if {b};\n    then {c};\n}}\n"))
    return out


# ------------------------------------------------------------------------------------------ runner
_wd = None


def _init():
    global _wd
    _wd = os.path.join(WORK, f"w{os.getpid()}")
    shutil.rmtree(_wd, ignore_errors=True)
    os.makedirs(os.path.join(_wd, "src"))
    os.makedirs(os.path.join(_wd, "out"))


def compile_text(text):
    with open(os.path.join(_wd, "src", "t.eql"), "w") as f:
        f.write(text)
    out = os.path.join(_wd, "out", "t.eql.rs")
    if os.path.exists(out):
        os.unlink(out)
    for limit in (60, 600):
        try:
            p = subprocess.run([common.EQLOG_BIN, os.path.join(_wd, "src"), os.path.join(_wd, "out")], stdout=subprocess.PIPE,
                               stderr=subprocess.PIPE, timeout=limit, env=common.env_offline({"RUST_BACKTRACE": "0"}))
            return p.returncode, p.stderr.decode("utf-8", "replace")
        except subprocess.TimeoutExpired:
            continue
    return -9, "timeout"


def judge(label, text):
    """Returns (verdict, sig, message, info). verdict in ok / skip / bad."""
    try:
        an = refstatic.analyse(text)
    except ParseError as e:
        return "skip", None, f"outside the fragment: {e}", None
    rc, err = compile_text(text)
    expected_reject = bool(an.present)
    if rc not in (0, 1):
        return "bad", "crash", f"the compiler exits with status {rc}: {err[-300:]}", None
    if rc == 0:
        if expected_reject:
            classes = sorted(set(c for c, _ in an.present))
            detail = ""
            if classes[0] == "declared-twice":
                lines = text.split("\n")
                kinds = sorted(set(lines[l - 1].split()[0] for c, l in an.present if c == "declared-twice" and 0 < l <= len(lines) and lines[l - 1].split()))
                detail = ":" + "+".join(kinds) + ("+match" if re.search(r"^\s*match ", text, re.M) else "")
            return "bad", "accepted-ill-formed:" + classes[0] + detail, f"the compiler accepts a program the reference finds ill-formed: {sorted(an.present)}", "accepted"
        return "ok", None, None, "accepted"
    first = err.split("\n", 1)[0]
    cls = refstatic.classify_message(first)
    m = re.search(r"--> [^\n]*:(\d+)\s*\n", err)
    line = int(m.group(1)) if m else None
    if not expected_reject:
        return "bad", f"rejected-well-formed:{cls}", f"the compiler rejects a program the reference finds well-formed: {first} (line {line})", "rejected"
    allowed = an.present | an.possible
    if cls is None:
        return "bad", "unknown-message", f"unclassifiable error message: {first}", "rejected"
    if cls in an.any_line:
        return "ok", None, None, "rejected:" + cls
    if not any(c == cls for c, _ in allowed):
        return "bad", f"wrong-class:{cls}", f"reported error `{first}` (line {line}) is not a defect the reference finds: {sorted(allowed)}", "rejected"
    if not any(c == cls and l == line for c, l in allowed):
        return "bad", f"wrong-line:{cls}", f"reported error `{first}` points at line {line}; the reference finds that class at lines {sorted(l for c, l in allowed if c == cls)}", "rejected"
    return "ok", None, None, "rejected:" + cls


def _job(arg):
    label, text = arg
    v, sig, msg, info = judge(label, text)
    return label, text, v, sig, msg, info


def build_cases(tier):
    bases = []
    for f in sorted(os.listdir(GDIR)):
        if f.endswith(".eql"):
            with open(os.path.join(GDIR, f)) as fh:
                src = "\n".join(l for l in fh.read().splitlines() if not l.startswith("//@")) + "\n"
            bases.append((f[:-4], src))
    cal = os.path.join(common.ROOT, "corpus", "c11_seeds")
    cases = []
    seen = set()
    def add(label, text):
        h = hashlib.sha1(text.encode()).digest()
        if h not in seen:
            seen.add(h)
            cases.append((label, text))
    for name, src in bases:
        decls = Parser(src).module()
        add(f"{name}:base", p_module(decls))
    if os.path.isdir(cal):
        for f in sorted(os.listdir(cal)):
            if f.endswith(".eql"):
                with open(os.path.join(cal, f)) as fh:
                    add(f"calibration:{f[:-4]}", fh.read())
    chosen = bases if tier != "quick" else bases[::3]
    for name, src in chosen:
        decls = Parser(src).module()
        for label, m in mutants(decls):
            try:
                add(f"{name}:{label}", p_module(m))
            except (KeyError, ValueError, TypeError):
                continue
    if tier != "quick":
        for label, text in enumerated_rules():
            add(label, text)
    return cases, len(bases)


def run(pid, tier, seed):
    t0 = time.time()
    common.build_compiler()
    shutil.rmtree(WORK, ignore_errors=True)
    os.makedirs(WORK, exist_ok=True)
    cases, nbases = build_cases(tier)
    outcomes = {}
    sigs = {}
    skipped = 0
    n = 0
    with multiprocessing.Pool(common.NCPU, initializer=_init) as pool:
        for label, text, v, sig, msg, info in pool.imap_unordered(_job, cases, chunksize=8):
            n += 1
            if v == "skip":
                skipped += 1
                continue
            outcomes[info or "?"] = outcomes.get(info or "?", 0) + 1
            if v == "bad":
                sigs.setdefault(sig, []).append((len(text), label, text, msg))
    violations = []
    for sig, lst in sorted(sigs.items()):
        lst.sort()
        _, label, text, msg = lst[0]
        violations.append({"sig": sig, "summary": f"{msg} [program {label}; {len(lst)} programs with this signature]\n{text}",
                           "replay": {"label": label, "text": text, "count": len(lst)}})
    shutil.rmtree(WORK, ignore_errors=True)
    rejected_classes = sorted(k for k in outcomes if k.startswith("rejected:"))
    cov = {"evaluations": n, "distinct_nontrivial": n - skipped - outcomes.get("accepted", 0),
           "rule": "programs = curated well-formed bases over two signatures, every single-site mutation of every base (declarations, statements, atoms, terms; ~35 operators) and, thorough, all rules `if A; [if B;] then C;` over pools of 13 premise and 16 conclusion atoms; each is judged by the reference static semantics (set of (class, line) defects) and compiled by the real CLI; distinct_nontrivial = distinct programs the reference finds ill-formed or that the compiler rejects",
           "base_programs": nbases, "outside_fragment_skipped": skipped, "outcomes": outcomes, "error_classes_exercised": len(rejected_classes),
           "exhaustive": True, "samples": [{"label": l, "text": t} for l, t in cases[len(cases) // 2: len(cases) // 2 + 2]]}
    return common.finish(pid, tier, "exploration", cov, violations, t0,
                         ["the reference static semantics (refstatic.py) is the oracle; it is calibrated on the repository's error-test-source cases and accepted theories inside the fragment",
                          "verdict: defect set empty <=> exit 0; otherwise exit 1 and the class and line of the first message are among the defects (or their induced consequences) the reference finds",
                          "fragment: types, predicates, functions, enums; rules with if/then, nested terms, branch, match; one statement per line"], seed)


def replay(pid, path):
    common.build_compiler()
    with open(path) as f:
        v = json.load(f)
    case = v.get("replay", v)
    os.makedirs(WORK, exist_ok=True)
    _init()
    r1 = judge(case["label"], case["text"])
    r2 = judge(case["label"], case["text"])
    shutil.rmtree(WORK, ignore_errors=True)
    if r1 != r2:
        print("MACHINERY-ERROR nondeterministic replay")
        return 2
    if r1[0] == "bad":
        print(f"REPLAY-VIOLATION property={pid} {r1[1]}: {r1[2]}")
        return 1
    print(f"REPLAY-OK property={pid}: verdicts agree ({r1[3]})")
    return 0

"""Reference static semantics for the eqlog fragment of property C10 (types, predicates, functions,
enums; rules with if/then statements, nested terms, branch, match). Sees only the AST produced by
eqlparse.Parser (one statement / declaration per line). Computes the set of defects present as
(class, line) pairs; `possible` holds induced consequences that the compiler may report instead."""
import re
from eqlparse import Parser, ParseError, snake

# canonical defect classes and the first-line message patterns of the compiler
CLASSES = [
    ("declared-twice", r"^Error: symbol declared multiple times"),
    ("undeclared", r"^Error: undeclared symbol"),
    ("bad-kind", r"^Error: expected \w+, found \w+"),
    ("func-args", r"^Error: function takes"),
    ("pred-args", r"^Error: predicate takes"),
    ("conflicting-types", r"^Error: term has conflicting types"),
    ("undetermined-type", r"^Error: type of term undetermined"),
    ("var-in-then", r"^Error: variable introduced in then statement"),
    ("wildcard-in-then", r"^Error: wildcards must not appear in then statements"),
    ("occurs-once", r"^Error: variable \"[^\"]*\" occurs only once"),
    ("surjectivity", r"^Error: term does not appear earlier in this rule"),
    ("then-defined-not-var", r"^Error: expected a variable"),
    ("then-defined-not-new", r"^Error: variable has already been introduced earlier"),
    ("enum-not-ctor", r"^Error: term of enum type"),
    ("pattern-variable", r"^Error: Pattern is a variable"),
    ("pattern-wildcard", r"^Error: Pattern is a wildcard"),
    ("pattern-nested", r"^Error: Nested patterns are not supported yet"),
    ("pattern-not-fresh", r"^Error: Variable in pattern has been used before"),
    ("pattern-conflicting-enum", r"^Error: Conflicting pattern types"),
    ("match-not-exhaustive", r"^Error: Missing match case"),
    ("not-camel", r"^Error: \w+ \"[^\"]*\" is not UpperCamelCase"),
    ("not-snake", r"^Error: (\w+ )?\"[^\"]*\" is not lower_snake_case"),
]


def classify_message(first_line):
    for cls, pat in CLASSES:
        if re.match(pat, first_line):
            return cls
    return None


KIND_WORD = {"type": "type", "pred": "predicate", "func": "function", "rule": "rule", "enum": "enum", "ctor": "constructor"}


class Analysis:
    def __init__(self):
        self.present = set()
        self.possible = set()
        # classes that may be reported at any line: consequences of a defect whose effect on scoping is
        # not pinned down (a pattern variable that shadows a variable in scope)
        self.any_line = set()
        self.degraded = False

    def add(self, cls, line, sure=True):
        (self.present if sure and not self.degraded else self.possible).add((cls, line))
        if sure and self.degraded:
            # in degraded mode (symbol-level defects present) rule-level findings are consequences at best
            pass


def analyse(src):
    decls = Parser(src).module()
    an = Analysis()
    # ------------------------------------------------------------------ symbols
    symbols = {}   # name -> list of (kind, line, decl)
    def declare(name, kind, line, decl):
        symbols.setdefault(name, []).append((kind, line, decl))
    for d in decls:
        if d["k"] in ("type", "pred", "func", "enum"):
            declare(d["name"], d["k"], d["line"], d)
            if d["k"] == "enum":
                for c in d["ctors"]:
                    declare(c["name"], "ctor", d["line"], dict(c, enum=d["name"]))
        elif d["k"] == "rule" and d["name"] is not None:
            declare(d["name"], "rule", d["line"], d)
        elif d["k"] == "model":
            raise ParseError("models are outside the C10 fragment")
    symbol_trouble = False
    for name, ds in symbols.items():
        if len(ds) > 1:
            symbol_trouble = True
            for kind, line, _ in ds[1:]:
                an.add("declared-twice", line)
            for kind, line, _ in ds[:1]:
                an.possible.add(("declared-twice", line))
    # casing (the generators avoid it; recorded so that stray cases are not misjudged)
    for name, ds in symbols.items():
        for kind, line, _ in ds:
            if kind in ("type", "enum", "ctor") and not re.match(r"^[A-Z][A-Za-z0-9]*$", name):
                an.add("not-camel", line)
            if kind in ("pred", "func", "rule") and not re.match(r"^[a-z][a-z0-9]*(_[a-z0-9]+)*$", name):
                an.add("not-snake", line)

    def lookup(name, want, line):
        """want: set of acceptable kinds. Returns the declaration or None (and records the defect)."""
        nonlocal symbol_trouble
        ds = symbols.get(name)
        if not ds:
            an.add("undeclared", line)
            symbol_trouble = True
            return None
        good = [x for x in ds if x[0] in want]
        if good and len(ds) == 1:
            return good[0]
        if good:
            an.possible.add(("bad-kind", line))
            return good[0]
        an.add("bad-kind", line)
        symbol_trouble = True
        return None

    def type_of(te, line):
        if "mor" in te:
            raise ParseError("Mor types are outside the C10 fragment")
        d = lookup(te["type"], {"type", "enum"}, line)
        return te["type"] if d else None

    sig = {}  # name -> (kind 'pred'|'func', [arg types or None], result type or None, ctor_of)
    for d in decls:
        if d["k"] == "pred":
            sig[d["name"]] = ("pred", [type_of(a, d["line"]) for a in d["args"]], None, None)
        elif d["k"] == "func":
            sig[d["name"]] = ("func", [type_of(a, d["line"]) for a in d["args"]], type_of(d["result"], d["line"]), None)
        elif d["k"] == "enum":
            for c in d["ctors"]:
                if c["name"] not in sig:
                    sig[c["name"]] = ("func", [type_of(a, d["line"]) for a in c["args"]], d["name"], d["name"])
    enums = {d["name"]: [c["name"] for c in d["ctors"]] for d in decls if d["k"] == "enum"}

    # ------------------------------------------------------------------ rules
    for d in decls:
        if d["k"] != "rule":
            continue
        RuleAnalysis(an, d, symbols, sig, enums, lookup).run()
    if any(c == "pattern-not-fresh" for c, _ in an.present):
        an.any_line |= {"conflicting-types", "undetermined-type", "surjectivity", "occurs-once", "var-in-then"}
    if symbol_trouble:
        # rule-level consequences of symbol-level defects are not pinned down: keep only symbol-level
        # defects as certainly present
        sym_classes = {"declared-twice", "undeclared", "bad-kind", "func-args", "pred-args", "not-camel", "not-snake"}
        moved = {x for x in an.present if x[0] not in sym_classes}
        an.present -= moved
        an.possible |= moved
    return an


class EGraph:
    def __init__(self):
        self.parent = []
        self.node_key = []       # per node: ('v', name) | ('a', func, tuple(child nodes))
        self.hashcons = {}
        self.types = {}          # root -> set of type names
        self.lines = {}          # root -> set of lines where a term of the class occurs

    def find(self, x):
        while self.parent[x] != x:
            self.parent[x] = self.parent[self.parent[x]]
            x = self.parent[x]
        return x

    def new_node(self, key):
        i = len(self.parent)
        self.parent.append(i)
        self.node_key.append(key)
        self.types[i] = set()
        self.lines[i] = set()
        return i

    def canon_key(self, key):
        if key[0] == "a":
            return ("a", key[1], tuple(self.find(c) for c in key[2]))
        return key

    def add(self, key):
        ck = self.canon_key(key)
        if ck in self.hashcons:
            return self.find(self.hashcons[ck]), False
        n = self.new_node(ck)
        self.hashcons[ck] = n
        return n, True

    def union(self, a, b):
        a, b = self.find(a), self.find(b)
        if a == b:
            return a
        self.parent[a] = b
        self.types[b] |= self.types.pop(a)
        self.lines[b] |= self.lines.pop(a)
        self.rebuild()
        return self.find(b)

    def rebuild(self):
        changed = True
        while changed:
            changed = False
            new = {}
            for n in range(len(self.parent)):
                ck = self.canon_key(self.node_key[n])
                if ck in new:
                    a, b = self.find(new[ck]), self.find(n)
                    if a != b:
                        self.parent[a] = b
                        self.types[b] |= self.types.pop(a)
                        self.lines[b] |= self.lines.pop(a)
                        changed = True
                else:
                    new[ck] = n
            self.hashcons = new

    def copy(self):
        g = EGraph()
        g.parent = list(self.parent)
        g.node_key = list(self.node_key)
        g.hashcons = dict(self.hashcons)
        g.types = {k: set(v) for k, v in self.types.items()}
        g.lines = {k: set(v) for k, v in self.lines.items()}
        return g


class RuleAnalysis:
    def __init__(self, an, rule, symbols, sig, enums, lookup):
        self.an, self.rule, self.symbols, self.sig, self.enums, self.lookup = an, rule, symbols, sig, enums, lookup
        self.bindings = []   # per binding id: list of occurrence lines
        self.fresh = 0
        self.path_classes = []

    # -------------------------------------------------------------- scoped walk
    def run(self):
        self.walk(self.rule["body"], {}, EGraph(), [])
        for occ in self.bindings:
            if len(occ) == 1:
                self.an.add("occurs-once", occ[0])
        # cross-path consequences of type conflicts (lines only)
        parent = {}
        def find(x):
            while parent.get(x, x) != x:
                x = parent[x]
            return x
        for members, _, _ in self.path_classes:
            for m in members[1:]:
                a, b = find(members[0]), find(m)
                if a != b:
                    parent[a] = b
        types, lines = {}, {}
        for members, tys, lns in self.path_classes:
            if not members:
                continue
            r = find(members[0])
            types.setdefault(r, set()).update(tys)
            lines.setdefault(r, set()).update(lns)
        for r, tys in types.items():
            if len(tys) > 1:
                for l in lines[r]:
                    self.an.possible.add(("conflicting-types", l))

    def new_binding(self, name, scope, line):
        self.bindings.append([])
        scope[name] = len(self.bindings) - 1
        return scope[name]

    def walk(self, stmts, scope, g, deferred):
        """Processes statements in order along every control-flow path. `scope`: name -> binding id.
        `g`: e-graph of the structure reached so far on this path (copied at forks).
        Returns nothing; end-of-path checks are done when the statement list (and the continuation
        stack `deferred`) is exhausted."""
        if not stmts:
            if deferred:
                (rest, outer_scope), tail = deferred[0], deferred[1:]
                # continue after the enclosing branch/match with the *outer* scope
                self.walk(rest, dict(outer_scope), g, tail)
            else:
                self.end_of_path(g)
            return
        s, rest = stmts[0], stmts[1:]
        line = s.get("line", 0)
        if "if" in s:
            self.if_atom(s["if"], scope, g, line)
            self.walk(rest, scope, g, deferred)
        elif "then" in s:
            self.then_atom(s["then"], scope, g, line)
            self.walk(rest, scope, g, deferred)
        elif "branch" in s:
            for block in s["branch"]:
                self.walk(block, dict(scope), g.copy(), [(rest, scope)] + deferred)
        elif "match" in s:
            t = self.term(s["match"], scope, g, line, in_then=False)
            cases = s["cases"]
            pattern_enums = set()
            covered = set()
            for c in cases:
                pl = c.get("line", line)
                pat = c["pattern"]
                cscope = dict(scope)
                cg = g.copy()
                ok_pattern = False
                if "var" in pat:
                    self.an.add("pattern-variable", pl)
                    # desugared to `if <matched term> = <pattern>` all the same
                    pv = self.term(pat, cscope, cg, pl, in_then=False)
                    if pv is not None and t is not None:
                        cg.union(t, pv)
                elif "wild" in pat:
                    self.an.add("pattern-wildcard", pl)
                else:
                    name = pat["app"]
                    ds = self.symbols.get(name) or []
                    ctor = [x for x in ds if x[0] == "ctor"]
                    if not ctor:
                        # not a constructor: reported as a symbol problem or an undesugarable pattern
                        self.lookup(name, {"ctor"}, pl)
                    else:
                        enum = ctor[0][2]["enum"]
                        pattern_enums.add(enum)
                        covered.add(name)
                        ok_pattern = True
                        seen_in_pattern = set()
                        for a in pat["args"]:
                            if "app" in a:
                                self.an.add("pattern-nested", pl)
                                ok_pattern = False
                            elif "var" in a:
                                if a["var"] in scope or a["var"] in seen_in_pattern:
                                    self.an.add("pattern-not-fresh", pl)
                                seen_in_pattern.add(a["var"])
                if "app" in pat:
                    # the pattern is interpreted as a term in any case (typing, occurrences); it is
                    # equated with the matched term whenever it denotes a constructor application
                    pt = self.term(pat, cscope, cg, pl, in_then=False)
                    if pt is not None and t is not None and ctor:
                        cg.union(t, pt)
                self.walk(c["body"], cscope, cg, [(rest, scope)] + deferred)
            if len(pattern_enums) > 1:
                self.an.add("pattern-conflicting-enum", line)
            elif len(pattern_enums) == 1:
                enum = next(iter(pattern_enums))
                missing = [c for c in self.enums.get(enum, []) if c not in covered]
                if missing:
                    self.an.add("match-not-exhaustive", line)
            if not cases:
                # no case: nothing continues (there is no block to join from)
                pass

    # -------------------------------------------------------------- variables
    def occ(self, name, scope, line, introduce):
        if name not in scope:
            if not introduce:
                return None
            self.new_binding(name, scope, line)
        self.bindings[scope[name]].append(line)
        return scope[name]

    # -------------------------------------------------------------- terms
    def term(self, t, scope, g, line, in_then, created=None):
        """Adds the term to the e-graph; returns its class or None if it cannot be interpreted."""
        if "wild" in t:
            if in_then:
                self.an.add("wildcard-in-then", line)
            self.fresh += 1
            n, new = g.add(("v", f"_#{self.fresh}"))
        elif "var" in t:
            name = t["var"]
            if name not in scope:
                if in_then:
                    self.an.add("var-in-then", line)
                self.new_binding(name, scope, line)
            b = scope[name]
            self.bindings[b].append(line)
            n, new = g.add(("v", b))
        else:
            name = t["app"]
            d = self.lookup(name, {"func", "ctor"}, line)
            args = [self.term(a, scope, g, line, in_then, created) for a in t["args"]]
            if d is None:
                return None
            kind, arg_tys, res_ty, _ = self.sig[name] if name in self.sig and self.sig[name][0] == "func" else (None, None, None, None)
            if kind is None:
                return None
            for a, ty in zip(args, arg_tys):
                if a is not None and ty is not None:
                    g.types[g.find(a)].add(ty)
            if len(args) != len(arg_tys) or any(a is None for a in args):
                if len(args) != len(arg_tys):
                    self.an.add("func-args", line)
                # the application cannot be interpreted, but its type is still known
                self.fresh += 1
                n, new = g.add(("v", f"_bad#{self.fresh}"))
                if res_ty is not None:
                    g.types[g.find(n)].add(res_ty)
                if created is not None:
                    created.append(n)
                g.lines[g.find(n)].add(line)
                return g.find(n)
            n, new = g.add(("a", name, tuple(args)))
            if res_ty is not None:
                g.types[g.find(n)].add(res_ty)
        if new and created is not None:
            created.append(n)
        g.lines[g.find(n)].add(line)
        return g.find(n)

    # -------------------------------------------------------------- atoms
    def if_atom(self, a, scope, g, line):
        if "pred" in a:
            d = self.lookup(a["pred"], {"pred"}, line)
            args = [self.term(x, scope, g, line, False) for x in a["args"]]
            if d is None or a["pred"] not in self.sig or self.sig[a["pred"]][0] != "pred":
                return
            tys = self.sig[a["pred"]][1]
            for x, ty in zip(args, tys):
                if x is not None and ty is not None:
                    g.types[g.find(x)].add(ty)
            if len(args) != len(tys):
                self.an.add("pred-args", line)
                return
        elif "eq" in a:
            l = self.term(a["eq"][0], scope, g, line, False)
            r = self.term(a["eq"][1], scope, g, line, False)
            if l is not None and r is not None:
                g.union(l, r)
        elif "defined" in a:
            self.term(a["defined"], scope, g, line, False)
        elif "typed" in a:
            # the type expression is resolved before the variable is introduced
            ty = a["type"]
            tname = ty.get("type") if isinstance(ty, dict) else ty
            d = self.lookup(tname, {"type", "enum"}, line)
            x = self.term(a["typed"], scope, g, line, False)
            if d is not None and x is not None:
                g.types[g.find(x)].add(tname)

    def then_atom(self, a, scope, g, line):
        before = set(range(len(g.parent)))
        created = []
        exempt = None
        if "pred" in a:
            d = self.lookup(a["pred"], {"pred"}, line)
            args = [self.term(x, scope, g, line, True, created) for x in a["args"]]
            if d is not None and a["pred"] in self.sig and self.sig[a["pred"]][0] == "pred":
                tys = self.sig[a["pred"]][1]
                if len(args) != len(tys):
                    self.an.add("pred-args", line)
                for x, ty in zip(args, tys):
                    if x is not None and ty is not None:
                        g.types[g.find(x)].add(ty)
        elif "eq" in a:
            l = self.term(a["eq"][0], scope, g, line, True, created)
            r = self.term(a["eq"][1], scope, g, line, True, created)
            if l is not None and r is not None:
                g.union(l, r)
        elif "defined" in a:
            t = a["defined"]
            n = self.term(t, scope, g, line, True, created)
            exempt = n
            if "bind" in a:
                b = a["bind"]
                if "wild" in b:
                    pass
                elif "var" not in b:
                    self.an.add("then-defined-not-var", line)
                    self.term(b, scope, g, line, True, created)
                else:
                    if b["var"] in scope:
                        self.an.add("then-defined-not-new", line)
                        self.bindings[scope[b["var"]]].append(line)
                    else:
                        self.new_binding(b["var"], scope, line)
                        self.bindings[scope[b["var"]]].append(line)
                    vn, _ = g.add(("v", scope[b["var"]]))
                    g.lines[g.find(vn)].add(line)
                    if n is not None:
                        g.union(vn, n)
                        exempt = g.find(n)
            # a term made defined in an enum type must be a constructor application
            if n is not None:
                tys = g.types[g.find(n)]
                for ty in tys:
                    if ty in self.enums:
                        is_ctor = "app" in t and any(x[0] == "ctor" for x in self.symbols.get(t["app"], []))
                        if not is_ctor:
                            self.an.add("enum-not-ctor", line)
        # epic / surjectivity: every class created by this statement must contain an earlier term
        exempt_root = g.find(exempt) if exempt is not None else None
        for n in created:
            r = g.find(n)
            if r == exempt_root:
                continue
            members_before = any(g.find(m) == r for m in before)
            if not members_before:
                self.an.add("surjectivity", line)

    # -------------------------------------------------------------- end of path
    def end_of_path(self, g):
        # remember which variable bindings share a class on this path, with the class's types and lines:
        # element types are shared between the structures of all paths (they flow along the structure
        # morphisms in both directions), so a conflict found on one path is also reported at terms that
        # are merged with the conflicting element on another path
        for r in set(g.find(n) for n in range(len(g.parent))):
            members = [g.node_key[n][1] for n in range(len(g.parent)) if g.find(n) == r and g.node_key[n][0] == "v" and isinstance(g.node_key[n][1], int)]
            self.path_classes.append((members, set(g.types.get(r, set())), set(g.lines.get(r, set()))))
        for r in set(g.find(n) for n in range(len(g.parent))):
            tys = g.types.get(r, set())
            if len(tys) > 1:
                for l in g.lines.get(r, ()):
                    self.an.add("conflicting-types", l)
            elif len(tys) == 0:
                for l in g.lines.get(r, ()):
                    self.an.add("undetermined-type", l)

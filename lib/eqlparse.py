"""Independent parser for the eqlog surface language (the fragment used by the corpus) and the
source-level lowering used by the reference semantics: member access flattening, linearisation of
branch/match into control-flow paths with block-local variables renamed apart, and variable typing.
Nothing here looks at eqlog's own passes or output."""
import json
import re

KEYWORDS = {"type", "pred", "func", "rule", "enum", "model", "if", "then", "branch", "along", "match"}
TOKEN_RE = re.compile(r"\s*(?:(//[^\n]*)|(:=|->|=>|[A-Za-z][A-Za-z0-9'_]*|[(){},;:=!.@_]))")


class ParseError(Exception):
    pass


def tokenize(src):
    toks, pos, line = [], 0, 1
    while True:
        m = TOKEN_RE.match(src, pos)
        if not m:
            if src[pos:].strip() == "":
                break
            raise ParseError(f"cannot tokenize at {src[pos:pos+20]!r}")
        line += src[pos:m.end()].count("\n") if False else 0
        if m.group(2) is not None:
            toks.append((m.group(2), src.count("\n", 0, m.start(2)) + 1))
        pos = m.end()
    return toks


def snake(name):
    """CamelCase -> snake_case the way generated API names are formed for the corpus identifiers."""
    s = re.sub(r"(?<=[a-z0-9])([A-Z])", r"_\1", name)
    s = re.sub(r"(?<=[A-Z])([A-Z][a-z])", r"_\1", s)
    return s.lower()


class Parser:
    def __init__(self, src):
        self.toks = tokenize(src)
        self.i = 0

    def peek(self, k=0):
        return self.toks[self.i + k][0] if self.i + k < len(self.toks) else None

    def line(self):
        return self.toks[self.i][1] if self.i < len(self.toks) else -1

    def next(self):
        t = self.peek()
        if t is None:
            raise ParseError("unexpected end of input")
        self.i += 1
        return t

    def expect(self, t):
        got = self.next()
        if got != t:
            raise ParseError(f"expected {t!r}, got {got!r} (line {self.toks[self.i-1][1]})")

    def ident(self):
        t = self.next()
        if not re.match(r"[A-Za-z]", t) or t in KEYWORDS:
            raise ParseError(f"expected identifier, got {t!r}")
        return t

    # ---- declarations
    def module(self):
        decls = []
        while self.peek() is not None:
            decls.append(self.decl())
        return decls

    def decl(self):
        t = self.peek()
        ln = self.line()
        if t == "type":
            self.next(); n = self.ident(); self.expect(";")
            return {"k": "type", "name": n, "line": ln}
        if t == "pred":
            self.next(); n = self.ident(); args = self.arg_decls(); self.expect(";")
            return {"k": "pred", "name": n, "args": args, "line": ln}
        if t == "func":
            self.next(); n = self.ident(); args = self.arg_decls(); self.expect("->"); res = self.type_expr(); self.expect(";")
            return {"k": "func", "name": n, "args": args, "result": res, "line": ln}
        if t == "enum":
            self.next(); n = self.ident(); self.expect("{")
            ctors = []
            while self.peek() != "}":
                cn = self.ident(); ca = self.arg_decls()
                ctors.append({"name": cn, "args": ca})
                if self.peek() == ",":
                    self.next()
            self.expect("}")
            return {"k": "enum", "name": n, "ctors": ctors, "line": ln}
        if t == "model":
            self.next(); n = self.ident(); self.expect("{")
            members = []
            while self.peek() != "}":
                members.append(self.decl())
            self.expect("}")
            return {"k": "model", "name": n, "members": members, "line": ln}
        if t == "rule":
            self.next()
            name = None
            if self.peek() != "{":
                name = self.ident()
            self.expect("{")
            body = self.stmts_until("}")
            self.expect("}")
            return {"k": "rule", "name": name, "body": body, "line": ln}
        raise ParseError(f"unexpected token {t!r} at declaration level (line {ln})")

    def arg_decls(self):
        self.expect("(")
        out = []
        while self.peek() != ")":
            if self.peek(1) == ":" :
                self.next(); self.next()
            out.append(self.type_expr())
            if self.peek() == ",":
                self.next()
        self.expect(")")
        return out

    def type_expr(self):
        if self.peek() == "Mor" and self.peek(1) == "(":
            self.next(); self.next(); n = self.ident(); self.expect(")")
            return {"mor": n}
        n = self.ident()
        if self.peek() == ".":
            # member type expression  <variable>.<Type>
            self.next(); m = self.ident()
            return {"member_type": m, "of": {"var": n}}
        return {"type": n}

    # ---- statements
    def stmts_until(self, end):
        out = []
        while self.peek() != end:
            out.append(self.stmt())
        return out

    def block(self):
        self.expect("{")
        b = self.stmts_until("}")
        self.expect("}")
        return b

    def stmt(self):
        t = self.peek()
        ln = self.line()
        if t == "if":
            self.next(); a = self.if_atom(); self.expect(";")
            return {"if": a, "line": ln}
        if t == "then":
            self.next(); a = self.then_atom(); self.expect(";")
            return {"then": a, "line": ln}
        if t == "branch":
            self.next()
            blocks = [self.block()]
            while self.peek() == "along":
                self.next(); blocks.append(self.block())
            return {"branch": blocks, "line": ln}
        if t == "match":
            self.next(); tm = self.term(); self.expect("{")
            cases = []
            while self.peek() != "}":
                cl = self.line()
                pat = self.term(); self.expect("=>"); body = self.block()
                cases.append({"pattern": pat, "body": body, "line": cl})
            self.expect("}")
            return {"match": tm, "cases": cases, "line": ln}
        raise ParseError(f"unexpected token {t!r} in rule body (line {ln})")

    def term(self):
        t = self.primary()
        while True:
            if self.peek() == "." :
                # member application  t.f(args)  (pred/func decided by the caller / signature)
                self.next(); n = self.ident()
                if self.peek() == "(":
                    args = self.arg_list()
                    t = {"app": n, "args": [t] + args, "member": True}
                else:
                    raise ParseError("member type expressions are outside the reference fragment")
            elif self.peek() == "@":
                # morphism application  f@(x)
                self.next(); self.expect("("); a = self.term(); self.expect(")")
                t = {"app": "$morapp", "args": [t, a]}
            else:
                return t

    def primary(self):
        t = self.next()
        if t == "_":
            return {"wild": True}
        if t in ("dom", "cod") and self.peek() == "(":
            self.next(); a = self.term(); self.expect(")")
            return {"app": "$" + t, "args": [a]}
        if not re.match(r"[A-Za-z]", t) or t in KEYWORDS:
            raise ParseError(f"expected a term, got {t!r}")
        if self.peek() == "(":
            return {"app": t, "args": self.arg_list()}
        return {"var": t}

    def arg_list(self):
        self.expect("(")
        out = []
        while self.peek() != ")":
            out.append(self.term())
            if self.peek() == ",":
                self.next()
        self.expect(")")
        return out

    def if_atom(self):
        t = self.term()
        p = self.peek()
        if p == "=":
            self.next(); r = self.term()
            return {"eq": [t, r]}
        if p == "!":
            self.next()
            return {"defined": t}
        if p == ":":
            self.next(); ty = self.type_expr()
            return {"typed": t, "type": ty}
        if "app" in t:
            return {"pred": t["app"], "args": t["args"], "member": t.get("member", False)}
        raise ParseError(f"malformed if atom near line {self.line()}")

    def then_atom(self):
        t = self.term()
        p = self.peek()
        if p == ":=":
            self.next(); r = self.term(); self.expect("!")
            return {"defined": r, "bind": t}
        if p == "=":
            self.next(); r = self.term()
            return {"eq": [t, r]}
        if p == "!":
            self.next()
            return {"defined": t}
        if "app" in t:
            return {"pred": t["app"], "args": t["args"], "member": t.get("member", False)}
        raise ParseError(f"malformed then atom near line {self.line()}")


# ------------------------------------------------------------------------------------------------
# Flat signature
# ------------------------------------------------------------------------------------------------

def type_name(te, models):
    if "mor" in te:
        return te["mor"] + "Mor"
    if "member_type" in te:
        raise ParseError("dependent member types in signatures are outside the reference fragment")
    return te["type"]


def membership_rel_name(model, member_type):
    return f"{snake(model)}_member_{snake(member_type)}"


def mor_app_rel_name(member_type):
    return f"{snake(member_type)}_mor_app"


def build_signature(decls):
    """types: list of {name, kind}; rels: list of {name, kind, arity (type names, result last for
    funcs), ctor_of, member_of, can_define}."""
    types, rels = [], []
    models = [d["name"] for d in decls if d["k"] == "model"]

    def add_type(name, kind, **kw):
        types.append(dict(name=name, kind=kind, **kw))

    for d in decls:
        if d["k"] == "type":
            add_type(d["name"], "plain")
        elif d["k"] == "enum":
            add_type(d["name"], "enum")
        elif d["k"] == "model":
            add_type(d["name"], "model")
            for m in d["members"]:
                if m["k"] == "type":
                    # a member type is a global sort plus a membership predicate (itself a member relation)
                    add_type(m["name"], "plain", member_of=d["name"], membership=membership_rel_name(d["name"], m["name"]))
    for d in decls:
        if d["k"] == "model":
            add_type(d["name"] + "Mor", "mor", model=d["name"])
    tnames = {t["name"] for t in types}

    def tn(te):
        n = type_name(te, models)
        if n not in tnames:
            raise ParseError(f"undeclared type {n}")
        return n

    for d in decls:
        if d["k"] == "pred":
            rels.append(dict(name=d["name"], kind="pred", arity=[tn(a) for a in d["args"]], ctor_of=None, member_of=None))
        elif d["k"] == "func":
            rels.append(dict(name=d["name"], kind="func", arity=[tn(a) for a in d["args"]] + [tn(d["result"])], ctor_of=None, member_of=None))
        elif d["k"] == "enum":
            for c in d["ctors"]:
                rels.append(dict(name=snake(c["name"]), src_name=c["name"], kind="func",
                                 arity=[tn(a) for a in c["args"]] + [d["name"]], ctor_of=d["name"], member_of=None))
        elif d["k"] == "model":
            for m in d["members"]:
                if m["k"] == "pred":
                    rels.append(dict(name=m["name"], kind="pred", arity=[d["name"]] + [tn(a) for a in m["args"]], ctor_of=None, member_of=d["name"]))
                elif m["k"] == "func":
                    rels.append(dict(name=m["name"], kind="func", arity=[d["name"]] + [tn(a) for a in m["args"]] + [tn(m["result"])], ctor_of=None, member_of=d["name"]))
                elif m["k"] == "type":
                    rels.append(dict(name=membership_rel_name(d["name"], m["name"]), kind="pred", arity=[d["name"], m["name"]], ctor_of=None,
                                     member_of=d["name"], membership_for=m["name"]))
                elif m["k"] == "rule":
                    pass
                else:
                    raise ParseError("only member types, predicates, functions and rules are in the reference fragment")
    for m in models:
        ms = snake(m)
        rels.append(dict(name=f"{ms}_mor_dom", kind="func", arity=[m + "Mor", m], ctor_of=None, member_of=None, mor_sig="dom"))
        rels.append(dict(name=f"{ms}_mor_cod", kind="func", arity=[m + "Mor", m], ctor_of=None, member_of=None, mor_sig="cod"))
    for d in decls:
        if d["k"] == "model":
            for m in d["members"]:
                if m["k"] == "type":
                    rels.append(dict(name=mor_app_rel_name(m["name"]), kind="func", arity=[d["name"] + "Mor", m["name"], m["name"]], ctor_of=None,
                                     member_of=None, mor_app_of=m["name"]))
    names = [r["name"] for r in rels]
    if len(set(names)) != len(names):
        raise ParseError("relation names collide after flattening")
    # a function can be made defined unless it is a non-constructor function into an enum type
    enum_types = {t["name"] for t in types if t["kind"] == "enum"}
    for r in rels:
        r["can_define"] = r["kind"] == "func" and (r["arity"][-1] not in enum_types or r["ctor_of"] is not None)
    return types, rels


# ------------------------------------------------------------------------------------------------
# Rules: resolve names, linearise, rename, type
# ------------------------------------------------------------------------------------------------

class Lowering:
    def __init__(self, types, rels):
        self.types = types
        self.rels = rels
        self.rel_by_name = {r["name"]: r for r in rels}
        for r in rels:
            if r.get("src_name"):
                self.rel_by_name[r["src_name"]] = r
        self.fresh = 0
        # set while the rules declared inside `model M { .. }` are lowered: member symbols without a
        # receiver refer to the implicit model element
        self.inside_model = None
        self.self_var = {"var": "self'"}

    def _implicit_receiver(self, name, args, is_pred):
        rel = self.rel_by_name.get(name)
        if self.inside_model and rel is not None and rel.get("member_of") == self.inside_model:
            want = len(rel["arity"]) - (0 if is_pred else 1)
            if len(args) == want - 1:
                return [self.self_var] + args
        return args

    def resolve_term(self, t):
        if "var" in t or "wild" in t:
            return t
        name = t["app"]
        args = [self.resolve_term(a) for a in t["args"]]
        if name == "$morapp":
            apps = [r for r in self.rels if r.get("mor_app_of")]
            if len(apps) != 1:
                raise ParseError("morphism application needs exactly one member type in the reference fragment")
            return {"app": apps[0]["name"], "args": args}
        if not t.get("member"):
            args = self._implicit_receiver(name, args, False)
        if name in ("$dom", "$cod"):
            # the model is determined by typing later; with one model type per theory it is unique
            mors = [x for x in self.types if x["kind"] == "mor"]
            if len(mors) != 1:
                raise ParseError("dom/cod need exactly one model declaration in the reference fragment")
            rel = f"{snake(mors[0]['model'])}_mor_{name[1:]}"
            return {"app": rel, "args": args}
        if name not in self.rel_by_name:
            raise ParseError(f"undeclared symbol {name}")
        return {"app": self.rel_by_name[name]["name"], "args": args}

    def resolve_atom(self, a):
        if "pred" in a:
            if a["pred"] not in self.rel_by_name:
                raise ParseError(f"undeclared predicate {a['pred']}")
            args = [self.resolve_term(x) for x in a["args"]]
            if not a.get("member"):
                args = self._implicit_receiver(a["pred"], args, True)
            return {"pred": self.rel_by_name[a["pred"]]["name"], "args": args}
        if "eq" in a:
            return {"eq": [self.resolve_term(a["eq"][0]), self.resolve_term(a["eq"][1])]}
        if "defined" in a:
            out = {"defined": self.resolve_term(a["defined"])}
            if "bind" in a:
                out["bind"] = a["bind"]
            return out
        if "typed" in a:
            te = a["type"]
            mt = None
            if "member_type" in te:
                mt, recv = te["member_type"], te["of"]
            elif "type" in te and self.inside_model and any(x["name"] == te["type"] and x.get("member_of") == self.inside_model for x in self.types):
                mt, recv = te["type"], self.self_var
            if mt is not None:
                ty = [x for x in self.types if x["name"] == mt and x.get("member_of")]
                if not ty:
                    raise ParseError(f"undeclared member type {mt}")
                return {"pred": ty[0]["membership"], "args": [self.resolve_term(recv), self.resolve_term(a["typed"])]}
            return {"typed": a["typed"], "type": type_name(te, None)}
        raise ParseError("bad atom")

    def linearise(self, stmts):
        """Returns the list of control-flow paths; a path is a list of ('if'|'then', atom).
        Variables first bound inside a branch/match block are local to the block: they are renamed
        apart (name#k), and the same name used after the block is a different variable. The block's
        statements stay on the path: the structure reached at the end of the block is the domain of
        the continuation."""
        return self._lin(stmts, {}, set())

    def _rename_term(self, t, scope, intro):
        if "wild" in t:
            self.fresh += 1
            return {"var": f"_w{self.fresh}"}
        if "var" in t:
            n = t["var"]
            if n not in scope:
                intro(n)
            return {"var": scope[n]}
        return {"app": t["app"], "args": [self._rename_term(a, scope, intro) for a in t["args"]]}

    def _lin(self, stmts, scope, _unused):
        """scope: source variable name -> unique path variable name."""
        if not stmts:
            return [[]]
        s, rest = stmts[0], stmts[1:]
        scope = dict(scope)

        def intro(n):
            self.fresh += 1
            scope[n] = f"{n}#{self.fresh}"

        if "if" in s or "then" in s:
            kind = "if" if "if" in s else "then"
            a = self.resolve_atom(s[kind])
            a2 = self._rename_atom(a, scope, intro)
            tails = self._lin(rest, scope, None)
            return [[(kind, a2, s.get("line", 0))] + t for t in tails]
        if "branch" in s:
            out = []
            for b in s["branch"]:
                # variables introduced inside the block are invisible afterwards: linearise the block
                # with a copy of the scope, then continue with the *outer* scope
                for bp, bscope in self._lin_block(b, scope):
                    for t in self._lin(rest, scope, None):
                        out.append(bp + t)
            return out
        if "match" in s:
            tm = self.resolve_term(s["match"])
            tm2 = self._rename_term(tm, scope, intro)
            head = [("if", {"defined": tm2}, s.get("line", 0))]
            out = []
            for c in s["cases"]:
                cscope = dict(scope)

                def cintro(n, cscope=cscope):
                    self.fresh += 1
                    cscope[n] = f"{n}#{self.fresh}"

                pat = self._rename_term(self.resolve_term(c["pattern"]), cscope, cintro)
                eq = [("if", {"eq": [tm2, pat]}, s.get("line", 0))]
                for bp, _ in self._lin_block(c["body"], cscope):
                    for t in self._lin(rest, scope, None):
                        out.append(head + eq + bp + t)
            if not s["cases"]:
                for t in self._lin(rest, scope, None):
                    out.append(head + t)
            return out
        raise ParseError("bad statement")

    def _lin_block(self, stmts, scope):
        """Paths of a block on their own (without continuation), each with its final scope."""
        if not stmts:
            return [([], scope)]
        # reuse _lin by making the continuation explicit: linearise statement by statement
        s, rest = stmts[0], stmts[1:]
        scope = dict(scope)

        def intro(n):
            self.fresh += 1
            scope[n] = f"{n}#{self.fresh}"

        if "if" in s or "then" in s:
            kind = "if" if "if" in s else "then"
            a2 = self._rename_atom(self.resolve_atom(s[kind]), scope, intro)
            return [([(kind, a2, s.get("line", 0))] + p, sc) for p, sc in self._lin_block(rest, scope)]
        if "branch" in s:
            out = []
            for b in s["branch"]:
                for bp, _ in self._lin_block(b, scope):
                    for p, sc in self._lin_block(rest, scope):
                        out.append((bp + p, sc))
            return out
        if "match" in s:
            tm2 = self._rename_term(self.resolve_term(s["match"]), scope, intro)
            head = [("if", {"defined": tm2}, s.get("line", 0))]
            out = []
            for c in s["cases"]:
                cscope = dict(scope)

                def cintro(n, cscope=cscope):
                    self.fresh += 1
                    cscope[n] = f"{n}#{self.fresh}"

                pat = self._rename_term(self.resolve_term(c["pattern"]), cscope, cintro)
                eq = [("if", {"eq": [tm2, pat]}, s.get("line", 0))]
                for bp, _ in self._lin_block(c["body"], cscope):
                    for p, sc in self._lin_block(rest, scope):
                        out.append((head + eq + bp + p, sc))
            return out
        raise ParseError("bad statement")

    def _rename_atom(self, a, scope, intro):
        if "pred" in a:
            return {"pred": a["pred"], "args": [self._rename_term(x, scope, intro) for x in a["args"]]}
        if "eq" in a:
            l = self._rename_term(a["eq"][0], scope, intro)
            r = self._rename_term(a["eq"][1], scope, intro)
            return {"eq": [l, r]}
        if "defined" in a:
            t = self._rename_term(a["defined"], scope, intro)
            out = {"defined": t}
            if "bind" in a:
                b = a["bind"]
                if "var" not in b:
                    raise ParseError(":= target must be a variable")
                intro(b["var"])
                out["bind"] = scope[b["var"]]
            return out
        if "typed" in a:
            return {"typed": self._rename_term(a["typed"], scope, intro), "type": a["type"]}
        raise ParseError("bad atom")

    # ---- typing of path variables (unification over the path)
    def type_path(self, path):
        parent = {}
        known = {}

        def find(x):
            while parent.get(x, x) != x:
                x = parent[x]
            return x

        def union(a, b):
            a, b = find(a), find(b)
            if a != b:
                parent[a] = b
                if a in known:
                    if b in known and known[b] != known[a]:
                        raise ParseError("conflicting types")
                    known[b] = known[a]

        def settype(node, ty):
            r = find(node)
            if r in known and known[r] != ty:
                raise ParseError(f"conflicting types {known[r]} vs {ty}")
            known[r] = ty

        def visit(t):
            """returns a node id standing for the type of t"""
            if "var" in t:
                return ("v", t["var"])
            rel = self.rel_by_name[t["app"]]
            if rel["kind"] != "func":
                raise ParseError(f"{t['app']} used as a function")
            if len(t["args"]) != len(rel["arity"]) - 1:
                raise ParseError(f"wrong argument count for {t['app']}")
            for a, ty in zip(t["args"], rel["arity"][:-1]):
                settype(visit(a), ty)
            node = ("t", id(t))
            settype(node, rel["arity"][-1])
            return node

        for kind, a, _ in path:
            if "pred" in a:
                rel = self.rel_by_name[a["pred"]]
                if rel["kind"] != "pred":
                    raise ParseError(f"{a['pred']} used as a predicate")
                if len(a["args"]) != len(rel["arity"]):
                    raise ParseError(f"wrong argument count for {a['pred']}")
                for x, ty in zip(a["args"], rel["arity"]):
                    settype(visit(x), ty)
            elif "eq" in a:
                union(visit(a["eq"][0]), visit(a["eq"][1]))
            elif "defined" in a:
                n = visit(a["defined"])
                if "bind" in a:
                    union(("v", a["bind"]), n)
            elif "typed" in a:
                settype(visit(a["typed"]), a["type"])
        vt = {}
        for kind, a, _ in path:
            for v in atom_vars(a):
                r = find(("v", v))
                if r not in known:
                    raise ParseError(f"undetermined type of variable {v}")
                vt[v] = known[r]
        return vt


def term_vars(t):
    if "var" in t:
        return [t["var"]]
    out = []
    for a in t.get("args", []):
        out += term_vars(a)
    return out


def atom_vars(a):
    out = []
    if "pred" in a:
        for x in a["args"]:
            out += term_vars(x)
    elif "eq" in a:
        out += term_vars(a["eq"][0]) + term_vars(a["eq"][1])
    elif "defined" in a:
        out += term_vars(a["defined"])
        if "bind" in a:
            out.append(a["bind"])
    elif "typed" in a:
        out += term_vars(a["typed"])
    return out


def lower(name, src):
    """Parses `src` and returns the JSON-able description used by the Rust reference semantics."""
    decls = Parser(src).module()
    types, rels = build_signature(decls)
    lw = Lowering(types, rels)
    paths = []
    rules = []
    anon = 0
    def lower_rule(d, model=None):
        nonlocal anon
        rname = d["name"]
        if rname is None:
            anon += 1
            rname = f"anonymous_{anon}"
        rules.append(rname)
        body = d["body"]
        lw.inside_model = model
        if model is not None:
            # a rule declared inside `model M` speaks about every element of M: implicit `if self: M`
            body = [{"if": {"typed": dict(lw.self_var), "type": {"type": model}}, "line": d.get("line", 0)}] + body
        for p in lw.linearise(body):
            vt = lw.type_path(p)
            paths.append({"rule": rname, "atoms": [{"kind": k, "atom": a, "line": ln} for k, a, ln in p], "vartypes": vt})
        lw.inside_model = None

    for d in decls:
        if d["k"] == "rule":
            lower_rule(d)
        elif d["k"] == "model":
            for m in d["members"]:
                if m["k"] == "rule":
                    lower_rule(m, d["name"])
    # built-in semantics of model declarations: member relations (member predicates, member functions and the
    # membership predicates of member types) are inherited along morphisms; components of a member type are
    # replaced by their images under the morphism (the tuple is inherited only if those images are defined)
    member_types = {t["name"] for t in types if t.get("member_of")}
    for r in list(rels):
        # (the membership predicate of a member type is not a member predicate or function: an element lives where it
        # was created - `new_<type>(parent)`, or the natural parent of a value created by define_ / `!` - and the
        # property does not claim that membership is pushed along morphisms; eqlog keeps no inherited copy of it)
        if not r.get("member_of") or r.get("membership_for"):
            continue
        comp = r["arity"][1:]
        xs = [f"x{i}" for i in range(len(comp))]
        ys = [f"y{i}" if ty in member_types else f"x{i}" for i, ty in enumerate(comp)]
        maps = "".join(f" if y{i} = f@(x{i});" for i, ty in enumerate(comp) if ty in member_types)
        if r["kind"] == "pred":
            text = (f"rule inherit_{r['name']} {{ if a = dom(f); if b = cod(f); if {r['name']}(a, {', '.join(xs)});{maps} "
                    f"then {r['name']}(b, {', '.join(ys)}); }}") if xs else \
                   f"rule inherit_{r['name']} {{ if a = dom(f); if b = cod(f); if {r['name']}(a); then {r['name']}(b); }}"
        else:
            argx, argy = ", ".join(["a"] + xs[:-1]), ", ".join(["b"] + ys[:-1])
            text = (f"rule inherit_{r['name']} {{ if a = dom(f); if b = cod(f); if {xs[-1]} = {r['name']}({argx});{maps} "
                    f"then {r['name']}({argy}) = {ys[-1]}; }}")
        rd = Parser(text).decl()
        for p in lw.linearise(rd["body"]):
            vt = lw.type_path(p)
            paths.append({"rule": f"(built-in) inheritance of {r['name']} along morphisms", "builtin": True,
                          "atoms": [{"kind": k, "atom": a, "line": 0} for k, a, ln in p], "vartypes": vt})
    has_bang = any(a["kind"] == "then" and "defined" in a["atom"] for p in paths for a in p["atoms"])
    return {"name": name, "types": types, "rels": rels, "rules": rules, "paths": paths,
            "surjective": not has_bang}


if __name__ == "__main__":
    import sys
    src = open(sys.argv[1]).read()
    print(json.dumps(lower("t", src), indent=1))

"""Independent parser for the eqlog surface language (the fragment used by the corpus) and the
source-level lowering used by the reference semantics: member access flattening, linearisation of
branch/match into control-flow paths with block-local variables renamed apart, and variable typing.
Nothing here looks at eqlog's own passes or output."""
import json
import re

KEYWORDS = {"type", "pred", "func", "rule", "enum", "model", "if", "then", "branch", "along", "match"}
TOKEN_RE = re.compile(r"\s*(?:(//[^\n]*)|(:=|->|=>|[A-Za-z][A-Za-z0-9'_]*|[(){},;:=!.@_]))")


class ParseError(Exception):
    pass


def tokenize(src):
    toks, pos, line = [], 0, 1
    while True:
        m = TOKEN_RE.match(src, pos)
        if not m:
            if src[pos:].strip() == "":
                break
            raise ParseError(f"cannot tokenize at {src[pos:pos+20]!r}")
        line += src[pos:m.end()].count("\n") if False else 0
        if m.group(2) is not None:
            toks.append((m.group(2), src.count("\n", 0, m.start(2)) + 1))
        pos = m.end()
    return toks


def snake(name):
    """CamelCase -> snake_case the way generated API names are formed for the corpus identifiers."""
    s = re.sub(r"(?<=[a-z0-9])([A-Z])", r"_\1", name)
    s = re.sub(r"(?<=[A-Z])([A-Z][a-z])", r"_\1", s)
    return s.lower()


class Parser:
    def __init__(self, src):
        self.toks = tokenize(src)
        self.i = 0

    def peek(self, k=0):
        return self.toks[self.i + k][0] if self.i + k < len(self.toks) else None

    def line(self):
        return self.toks[self.i][1] if self.i < len(self.toks) else -1

    def next(self):
        t = self.peek()
        if t is None:
            raise ParseError("unexpected end of input")
        self.i += 1
        return t

    def expect(self, t):
        got = self.next()
        if got != t:
            raise ParseError(f"expected {t!r}, got {got!r} (line {self.toks[self.i-1][1]})")

    def ident(self):
        t = self.next()
        if not re.match(r"[A-Za-z]", t) or t in KEYWORDS:
            raise ParseError(f"expected identifier, got {t!r}")
        return t

    # ---- declarations
    def module(self):
        decls = []
        while self.peek() is not None:
            decls.append(self.decl())
        return decls

    def decl(self):
        t = self.peek()
        ln = self.line()
        if t == "type":
            self.next(); n = self.ident(); self.expect(";")
            return {"k": "type", "name": n, "line": ln}
        if t == "pred":
            self.next(); n = self.ident(); args = self.arg_decls(); self.expect(";")
            return {"k": "pred", "name": n, "args": args, "line": ln}
        if t == "func":
            self.next(); n = self.ident(); args = self.arg_decls(); self.expect("->"); res = self.type_expr(); self.expect(";")
            return {"k": "func", "name": n, "args": args, "result": res, "line": ln}
        if t == "enum":
            self.next(); n = self.ident(); self.expect("{")
            ctors = []
            while self.peek() != "}":
                cn = self.ident(); ca = self.arg_decls()
                ctors.append({"name": cn, "args": ca})
                if self.peek() == ",":
                    self.next()
            self.expect("}")
            return {"k": "enum", "name": n, "ctors": ctors, "line": ln}
        if t == "model":
            self.next(); n = self.ident(); self.expect("{")
            members = []
            while self.peek() != "}":
                members.append(self.decl())
            self.expect("}")
            return {"k": "model", "name": n, "members": members, "line": ln}
        if t == "rule":
            self.next()
            name = None
            if self.peek() != "{":
                name = self.ident()
            self.expect("{")
            body = self.stmts_until("}")
            self.expect("}")
            return {"k": "rule", "name": name, "body": body, "line": ln}
        raise ParseError(f"unexpected token {t!r} at declaration level (line {ln})")

    def arg_decls(self):
        self.expect("(")
        out = []
        while self.peek() != ")":
            if self.peek(1) == ":" :
                self.next(); self.next()
            out.append(self.type_expr())
            if self.peek() == ",":
                self.next()
        self.expect(")")
        return out

    def type_expr(self):
        if self.peek() == "Mor" and self.peek(1) == "(":
            self.next(); self.next(); n = self.ident(); self.expect(")")
            return {"mor": n}
        # member type expressions (term.Type) are outside the supported fragment
        n = self.ident()
        if self.peek() == ".":
            raise ParseError("member type expressions are outside the reference fragment")
        return {"type": n}

    # ---- statements
    def stmts_until(self, end):
        out = []
        while self.peek() != end:
            out.append(self.stmt())
        return out

    def block(self):
        self.expect("{")
        b = self.stmts_until("}")
        self.expect("}")
        return b

    def stmt(self):
        t = self.peek()
        ln = self.line()
        if t == "if":
            self.next(); a = self.if_atom(); self.expect(";")
            return {"if": a, "line": ln}
        if t == "then":
            self.next(); a = self.then_atom(); self.expect(";")
            return {"then": a, "line": ln}
        if t == "branch":
            self.next()
            blocks = [self.block()]
            while self.peek() == "along":
                self.next(); blocks.append(self.block())
            return {"branch": blocks, "line": ln}
        if t == "match":
            self.next(); tm = self.term(); self.expect("{")
            cases = []
            while self.peek() != "}":
                cl = self.line()
                pat = self.term(); self.expect("=>"); body = self.block()
                cases.append({"pattern": pat, "body": body, "line": cl})
            self.expect("}")
            return {"match": tm, "cases": cases, "line": ln}
        raise ParseError(f"unexpected token {t!r} in rule body (line {ln})")

    def term(self):
        t = self.primary()
        while True:
            if self.peek() == "." :
                # member application  t.f(args)  (pred/func decided by the caller / signature)
                self.next(); n = self.ident()
                if self.peek() == "(":
                    args = self.arg_list()
                    t = {"app": n, "args": [t] + args, "member": True}
                else:
                    raise ParseError("member type expressions are outside the reference fragment")
            elif self.peek() == "@":
                raise ParseError("morphism application is outside the reference fragment")
            else:
                return t

    def primary(self):
        t = self.next()
        if t == "_":
            return {"wild": True}
        if t in ("dom", "cod") and self.peek() == "(":
            self.next(); a = self.term(); self.expect(")")
            return {"app": "$" + t, "args": [a]}
        if not re.match(r"[A-Za-z]", t) or t in KEYWORDS:
            raise ParseError(f"expected a term, got {t!r}")
        if self.peek() == "(":
            return {"app": t, "args": self.arg_list()}
        return {"var": t}

    def arg_list(self):
        self.expect("(")
        out = []
        while self.peek() != ")":
            out.append(self.term())
            if self.peek() == ",":
                self.next()
        self.expect(")")
        return out

    def if_atom(self):
        t = self.term()
        p = self.peek()
        if p == "=":
            self.next(); r = self.term()
            return {"eq": [t, r]}
        if p == "!":
            self.next()
            return {"defined": t}
        if p == ":":
            self.next(); ty = self.type_expr()
            return {"typed": t, "type": ty}
        if "app" in t:
            return {"pred": t["app"], "args": t["args"]}
        raise ParseError(f"malformed if atom near line {self.line()}")

    def then_atom(self):
        t = self.term()
        p = self.peek()
        if p == ":=":
            self.next(); r = self.term(); self.expect("!")
            return {"defined": r, "bind": t}
        if p == "=":
            self.next(); r = self.term()
            return {"eq": [t, r]}
        if p == "!":
            self.next()
            return {"defined": t}
        if "app" in t:
            return {"pred": t["app"], "args": t["args"]}
        raise ParseError(f"malformed then atom near line {self.line()}")


# ------------------------------------------------------------------------------------------------
# Flat signature
# ------------------------------------------------------------------------------------------------

def type_name(te, models):
    if "mor" in te:
        return te["mor"] + "Mor"
    return te["type"]


def build_signature(decls):
    """types: list of {name, kind}; rels: list of {name, kind, arity (type names, result last for
    funcs), ctor_of, member_of, can_define}."""
    types, rels = [], []
    models = [d["name"] for d in decls if d["k"] == "model"]

    def add_type(name, kind, **kw):
        types.append(dict(name=name, kind=kind, **kw))

    for d in decls:
        if d["k"] == "type":
            add_type(d["name"], "plain")
        elif d["k"] == "enum":
            add_type(d["name"], "enum")
        elif d["k"] == "model":
            add_type(d["name"], "model")
    for d in decls:
        if d["k"] == "model":
            add_type(d["name"] + "Mor", "mor", model=d["name"])
    tnames = {t["name"] for t in types}

    def tn(te):
        n = type_name(te, models)
        if n not in tnames:
            raise ParseError(f"undeclared type {n}")
        return n

    for d in decls:
        if d["k"] == "pred":
            rels.append(dict(name=d["name"], kind="pred", arity=[tn(a) for a in d["args"]], ctor_of=None, member_of=None))
        elif d["k"] == "func":
            rels.append(dict(name=d["name"], kind="func", arity=[tn(a) for a in d["args"]] + [tn(d["result"])], ctor_of=None, member_of=None))
        elif d["k"] == "enum":
            for c in d["ctors"]:
                rels.append(dict(name=snake(c["name"]), src_name=c["name"], kind="func",
                                 arity=[tn(a) for a in c["args"]] + [d["name"]], ctor_of=d["name"], member_of=None))
        elif d["k"] == "model":
            for m in d["members"]:
                if m["k"] == "pred":
                    rels.append(dict(name=m["name"], kind="pred", arity=[d["name"]] + [tn(a) for a in m["args"]], ctor_of=None, member_of=d["name"]))
                elif m["k"] == "func":
                    rels.append(dict(name=m["name"], kind="func", arity=[d["name"]] + [tn(a) for a in m["args"]] + [tn(m["result"])], ctor_of=None, member_of=d["name"]))
                else:
                    raise ParseError("only member predicates and functions over global types are in the reference fragment")
    for m in models:
        ms = snake(m)
        rels.append(dict(name=f"{ms}_mor_dom", kind="func", arity=[m + "Mor", m], ctor_of=None, member_of=None, mor_sig="dom"))
        rels.append(dict(name=f"{ms}_mor_cod", kind="func", arity=[m + "Mor", m], ctor_of=None, member_of=None, mor_sig="cod"))
    names = [r["name"] for r in rels]
    if len(set(names)) != len(names):
        raise ParseError("relation names collide after flattening")
    # a function can be made defined unless it is a non-constructor function into an enum type
    enum_types = {t["name"] for t in types if t["kind"] == "enum"}
    for r in rels:
        r["can_define"] = r["kind"] == "func" and (r["arity"][-1] not in enum_types or r["ctor_of"] is not None)
    return types, rels


# ------------------------------------------------------------------------------------------------
# Rules: resolve names, linearise, rename, type
# ------------------------------------------------------------------------------------------------

class Lowering:
    def __init__(self, types, rels):
        self.types = types
        self.rels = rels
        self.rel_by_name = {r["name"]: r for r in rels}
        for r in rels:
            if r.get("src_name"):
                self.rel_by_name[r["src_name"]] = r
        self.fresh = 0

    def resolve_term(self, t):
        if "var" in t or "wild" in t:
            return t
        name = t["app"]
        args = [self.resolve_term(a) for a in t["args"]]
        if name in ("$dom", "$cod"):
            # the model is determined by typing later; with one model type per theory it is unique
            mors = [x for x in self.types if x["kind"] == "mor"]
            if len(mors) != 1:
                raise ParseError("dom/cod need exactly one model declaration in the reference fragment")
            rel = f"{snake(mors[0]['model'])}_mor_{name[1:]}"
            return {"app": rel, "args": args}
        if name not in self.rel_by_name:
            raise ParseError(f"undeclared symbol {name}")
        return {"app": self.rel_by_name[name]["name"], "args": args}

    def resolve_atom(self, a):
        if "pred" in a:
            if a["pred"] not in self.rel_by_name:
                raise ParseError(f"undeclared predicate {a['pred']}")
            return {"pred": self.rel_by_name[a["pred"]]["name"], "args": [self.resolve_term(x) for x in a["args"]]}
        if "eq" in a:
            return {"eq": [self.resolve_term(a["eq"][0]), self.resolve_term(a["eq"][1])]}
        if "defined" in a:
            out = {"defined": self.resolve_term(a["defined"])}
            if "bind" in a:
                out["bind"] = a["bind"]
            return out
        if "typed" in a:
            return {"typed": a["typed"], "type": type_name(a["type"], None)}
        raise ParseError("bad atom")

    def linearise(self, stmts):
        """Returns the list of control-flow paths; a path is a list of ('if'|'then', atom).
        Variables first bound inside a branch/match block are local to the block: they are renamed
        apart (name#k), and the same name used after the block is a different variable. The block's
        statements stay on the path: the structure reached at the end of the block is the domain of
        the continuation."""
        return self._lin(stmts, {}, set())

    def _rename_term(self, t, scope, intro):
        if "wild" in t:
            self.fresh += 1
            return {"var": f"_w{self.fresh}"}
        if "var" in t:
            n = t["var"]
            if n not in scope:
                intro(n)
            return {"var": scope[n]}
        return {"app": t["app"], "args": [self._rename_term(a, scope, intro) for a in t["args"]]}

    def _lin(self, stmts, scope, _unused):
        """scope: source variable name -> unique path variable name."""
        if not stmts:
            return [[]]
        s, rest = stmts[0], stmts[1:]
        scope = dict(scope)

        def intro(n):
            self.fresh += 1
            scope[n] = f"{n}#{self.fresh}"

        if "if" in s or "then" in s:
            kind = "if" if "if" in s else "then"
            a = self.resolve_atom(s[kind])
            a2 = self._rename_atom(a, scope, intro)
            tails = self._lin(rest, scope, None)
            return [[(kind, a2, s.get("line", 0))] + t for t in tails]
        if "branch" in s:
            out = []
            for b in s["branch"]:
                # variables introduced inside the block are invisible afterwards: linearise the block
                # with a copy of the scope, then continue with the *outer* scope
                for bp, bscope in self._lin_block(b, scope):
                    for t in self._lin(rest, scope, None):
                        out.append(bp + t)
            return out
        if "match" in s:
            tm = self.resolve_term(s["match"])
            tm2 = self._rename_term(tm, scope, intro)
            head = [("if", {"defined": tm2}, s.get("line", 0))]
            out = []
            for c in s["cases"]:
                cscope = dict(scope)

                def cintro(n, cscope=cscope):
                    self.fresh += 1
                    cscope[n] = f"{n}#{self.fresh}"

                pat = self._rename_term(self.resolve_term(c["pattern"]), cscope, cintro)
                eq = [("if", {"eq": [tm2, pat]}, s.get("line", 0))]
                for bp, _ in self._lin_block(c["body"], cscope):
                    for t in self._lin(rest, scope, None):
                        out.append(head + eq + bp + t)
            if not s["cases"]:
                for t in self._lin(rest, scope, None):
                    out.append(head + t)
            return out
        raise ParseError("bad statement")

    def _lin_block(self, stmts, scope):
        """Paths of a block on their own (without continuation), each with its final scope."""
        if not stmts:
            return [([], scope)]
        # reuse _lin by making the continuation explicit: linearise statement by statement
        s, rest = stmts[0], stmts[1:]
        scope = dict(scope)

        def intro(n):
            self.fresh += 1
            scope[n] = f"{n}#{self.fresh}"

        if "if" in s or "then" in s:
            kind = "if" if "if" in s else "then"
            a2 = self._rename_atom(self.resolve_atom(s[kind]), scope, intro)
            return [([(kind, a2, s.get("line", 0))] + p, sc) for p, sc in self._lin_block(rest, scope)]
        if "branch" in s:
            out = []
            for b in s["branch"]:
                for bp, _ in self._lin_block(b, scope):
                    for p, sc in self._lin_block(rest, scope):
                        out.append((bp + p, sc))
            return out
        if "match" in s:
            tm2 = self._rename_term(self.resolve_term(s["match"]), scope, intro)
            head = [("if", {"defined": tm2}, s.get("line", 0))]
            out = []
            for c in s["cases"]:
                cscope = dict(scope)

                def cintro(n, cscope=cscope):
                    self.fresh += 1
                    cscope[n] = f"{n}#{self.fresh}"

                pat = self._rename_term(self.resolve_term(c["pattern"]), cscope, cintro)
                eq = [("if", {"eq": [tm2, pat]}, s.get("line", 0))]
                for bp, _ in self._lin_block(c["body"], cscope):
                    for p, sc in self._lin_block(rest, scope):
                        out.append((head + eq + bp + p, sc))
            return out
        raise ParseError("bad statement")

    def _rename_atom(self, a, scope, intro):
        if "pred" in a:
            return {"pred": a["pred"], "args": [self._rename_term(x, scope, intro) for x in a["args"]]}
        if "eq" in a:
            l = self._rename_term(a["eq"][0], scope, intro)
            r = self._rename_term(a["eq"][1], scope, intro)
            return {"eq": [l, r]}
        if "defined" in a:
            t = self._rename_term(a["defined"], scope, intro)
            out = {"defined": t}
            if "bind" in a:
                b = a["bind"]
                if "var" not in b:
                    raise ParseError(":= target must be a variable")
                intro(b["var"])
                out["bind"] = scope[b["var"]]
            return out
        if "typed" in a:
            return {"typed": self._rename_term(a["typed"], scope, intro), "type": a["type"]}
        raise ParseError("bad atom")

    # ---- typing of path variables (unification over the path)
    def type_path(self, path):
        parent = {}
        known = {}

        def find(x):
            while parent.get(x, x) != x:
                x = parent[x]
            return x

        def union(a, b):
            a, b = find(a), find(b)
            if a != b:
                parent[a] = b
                if a in known:
                    if b in known and known[b] != known[a]:
                        raise ParseError("conflicting types")
                    known[b] = known[a]

        def settype(node, ty):
            r = find(node)
            if r in known and known[r] != ty:
                raise ParseError(f"conflicting types {known[r]} vs {ty}")
            known[r] = ty

        def visit(t):
            """returns a node id standing for the type of t"""
            if "var" in t:
                return ("v", t["var"])
            rel = self.rel_by_name[t["app"]]
            if rel["kind"] != "func":
                raise ParseError(f"{t['app']} used as a function")
            if len(t["args"]) != len(rel["arity"]) - 1:
                raise ParseError(f"wrong argument count for {t['app']}")
            for a, ty in zip(t["args"], rel["arity"][:-1]):
                settype(visit(a), ty)
            node = ("t", id(t))
            settype(node, rel["arity"][-1])
            return node

        for kind, a, _ in path:
            if "pred" in a:
                rel = self.rel_by_name[a["pred"]]
                if rel["kind"] != "pred":
                    raise ParseError(f"{a['pred']} used as a predicate")
                if len(a["args"]) != len(rel["arity"]):
                    raise ParseError(f"wrong argument count for {a['pred']}")
                for x, ty in zip(a["args"], rel["arity"]):
                    settype(visit(x), ty)
            elif "eq" in a:
                union(visit(a["eq"][0]), visit(a["eq"][1]))
            elif "defined" in a:
                n = visit(a["defined"])
                if "bind" in a:
                    union(("v", a["bind"]), n)
            elif "typed" in a:
                settype(visit(a["typed"]), a["type"])
        vt = {}
        for kind, a, _ in path:
            for v in atom_vars(a):
                r = find(("v", v))
                if r not in known:
                    raise ParseError(f"undetermined type of variable {v}")
                vt[v] = known[r]
        return vt


def term_vars(t):
    if "var" in t:
        return [t["var"]]
    out = []
    for a in t.get("args", []):
        out += term_vars(a)
    return out


def atom_vars(a):
    out = []
    if "pred" in a:
        for x in a["args"]:
            out += term_vars(x)
    elif "eq" in a:
        out += term_vars(a["eq"][0]) + term_vars(a["eq"][1])
    elif "defined" in a:
        out += term_vars(a["defined"])
        if "bind" in a:
            out.append(a["bind"])
    elif "typed" in a:
        out += term_vars(a["typed"])
    return out


def lower(name, src):
    """Parses `src` and returns the JSON-able description used by the Rust reference semantics."""
    decls = Parser(src).module()
    types, rels = build_signature(decls)
    lw = Lowering(types, rels)
    paths = []
    rules = []
    anon = 0
    for d in decls:
        if d["k"] != "rule":
            continue
        rname = d["name"]
        if rname is None:
            anon += 1
            rname = f"anonymous_{anon}"
        rules.append(rname)
        for p in lw.linearise(d["body"]):
            vt = lw.type_path(p)
            paths.append({"rule": rname, "atoms": [{"kind": k, "atom": a, "line": ln} for k, a, ln in p], "vartypes": vt})
    # built-in semantics of model declarations: member relations are inherited along morphisms
    for d in decls:
        if d["k"] != "model":
            continue
        for m in d["members"]:
            xs = ", ".join(f"x{i}" for i in range(len(m["args"])))
            if m["k"] == "pred":
                text = f"rule inherit_{m['name']} {{ if a = dom(f); if b = cod(f); if a.{m['name']}({xs}); then b.{m['name']}({xs}); }}"
            elif m["k"] == "func":
                text = f"rule inherit_{m['name']} {{ if a = dom(f); if b = cod(f); if y = a.{m['name']}({xs}); then b.{m['name']}({xs}) = y; }}"
            else:
                continue
            rd = Parser(text).decl()
            for p in lw.linearise(rd["body"]):
                vt = lw.type_path(p)
                paths.append({"rule": f"(built-in) inheritance of {m['name']} along morphisms", "builtin": True,
                              "atoms": [{"kind": k, "atom": a, "line": 0} for k, a, ln in p], "vartypes": vt})
    has_bang = any(a["kind"] == "then" and "defined" in a["atom"] for p in paths for a in p["atoms"])
    return {"name": name, "types": types, "rels": rels, "rules": rules, "paths": paths,
            "surjective": not has_bang}


if __name__ == "__main__":
    import sys
    src = open(sys.argv[1]).read()
    print(json.dumps(lower("t", src), indent=1))

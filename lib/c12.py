"""C12 - explicit-state exploration of the incremental-build protocol with the real eqlog binary as the
transition function. State = (current source version, byte content of output + component directories).
Events = edit to another version / build / build killed before its k-th file-system mutation /
build whose k-th write is torn / build whose rustc fails for one component."""
import hashlib, json, os, re, shutil, subprocess, sys, time
from concurrent.futures import ThreadPoolExecutor
import common

INJECT_SRC = os.path.join(common.ROOT, "inject")
FSINJECT = os.path.join(common.BUILD, "fsinject.so")
FAKERUSTC = os.path.join(common.BUILD, "fakerustc")
WORK = os.path.join(common.BUILD, "c12")

VERSIONS = {
    "v1": """type V;
pred e(V, V);
pred p(V);
rule trans {
    if e(x, y);
    if e(y, z);
    then e(x, z);
}
rule mark {
    if e(x, x);
    then p(x);
}
""",
    # one rule body changed
    "v2": """type V;
pred e(V, V);
pred p(V);
rule trans {
    if e(x, y);
    if e(y, z);
    then e(x, z);
}
rule mark {
    if e(x, _);
    then p(x);
}
""",
    # a rule removed and one added: component names change
    "v3": """type V;
pred e(V, V);
pred p(V);
rule trans {
    if e(x, y);
    if e(y, z);
    then e(x, z);
}
rule sym {
    if e(x, y);
    then e(y, x);
}
""",
    # does not compile
    "vbad": """type V;
pred e(V, V);
rule broken {
    if e(x, y);
    then q(x);
}
""",
}


def build_tools():
    with common.BuildLock("inject"):
        for src, out, extra in (("fsinject.c", FSINJECT, ["-shared", "-fPIC", "-ldl"]), ("fakerustc.c", FAKERUSTC, [])):
            s = os.path.join(INJECT_SRC, src)
            if not os.path.exists(out) or os.path.getmtime(out) < os.path.getmtime(s):
                common.run(["gcc", "-O1", "-o", out, s] + extra, f"build of {src}")


def snapshot(root):
    out = {}
    for d, _, fs in os.walk(root):
        for f in fs:
            p = os.path.join(d, f)
            with open(p, "rb") as fh:
                out[os.path.relpath(p, root)] = fh.read()
        if not fs and d != root and not os.listdir(d):
            out[os.path.relpath(d, root) + "/"] = b""
    return out


def materialise(root, snap):
    shutil.rmtree(root, ignore_errors=True)
    os.makedirs(os.path.join(root, "src"))
    os.makedirs(os.path.join(root, "out"))
    os.makedirs(os.path.join(root, "comp"))
    for rel, data in snap.items():
        p = os.path.join(root, rel)
        if rel.endswith("/"):
            os.makedirs(p, exist_ok=True)
            continue
        os.makedirs(os.path.dirname(p), exist_ok=True)
        with open(p, "wb") as f:
            f.write(data)


def snap_hash(version, snap):
    h = hashlib.sha1(version.encode())
    for k in sorted(snap):
        h.update(k.encode() + b"\0" + hashlib.sha1(snap[k]).digest())
    return h.hexdigest()


# listing orders explored at the crash points of builds that delete files: by name, and by every priority order of the
# three kinds of component files (then by name)
DIR_ORDERS = ("asc", "desc", "ext:rs,digest,rlib", "ext:rs,rlib,digest", "ext:digest,rlib,rs", "ext:rlib,digest,rs", "ext:rlib,rs,digest")


def run_build(root, mode, version, kill=None, tear=None, fail=None, record=True, threads="1", dirorder="asc"):
    """One real build of `version` in `root`. Returns (exit code or None if killed, mutation log)."""
    with open(os.path.join(root, "src", "t.eql"), "w") as f:
        f.write(VERSIONS[version])
    log = os.path.join(root, "fs.log")
    state = os.path.join(root, "fs.state")
    for p in (log, state):
        if os.path.exists(p):
            os.unlink(p)
    env = common.env_offline({
        "LD_PRELOAD": FSINJECT, "FSINJECT_ROOTS": os.path.join(root, "out") + ":" + os.path.join(root, "comp"),
        "FSINJECT_LOG": log, "FSINJECT_STATE": state, "RAYON_NUM_THREADS": threads,
        # the order of directory listings is unspecified; the injector fixes it (and the search varies it at crash points)
        "FSINJECT_DIRORDER": dirorder,
    })
    if kill:
        env["FSINJECT_KILL"] = str(kill)
    if tear:
        env["FSINJECT_TEAR"] = str(tear)
    if fail:
        env["FAKERUSTC_FAIL"] = fail
    cmd = [common.EQLOG_BIN, os.path.join(root, "src"), os.path.join(root, "out")]
    if mode == "component":
        cmd += ["--build-type", "component", "--component-out-dir", os.path.join(root, "comp"),
                "--rustc-path", FAKERUSTC, "--runtime-rlib-path", "/dev/null"]
    p = subprocess.run(cmd, env=env, stdout=subprocess.PIPE, stderr=subprocess.PIPE, start_new_session=True, timeout=120)
    muts = []
    if os.path.exists(log):
        with open(log) as f:
            for line in f:
                parts = line.split()
                if len(parts) >= 4:
                    muts.append((parts[1], os.path.relpath(parts[2], root), int(parts[3])))
    rc = p.returncode
    killed = rc is not None and rc < 0
    return (None if killed else rc), muts, p.stderr.decode("utf-8", "replace")


def outputs(root):
    snap = {}
    for sub in ("out", "comp"):
        s = snapshot(os.path.join(root, sub))
        for k, v in s.items():
            snap[sub + "/" + k] = v
    return snap


class Explorer:
    def __init__(self, mode, tier):
        self.mode = mode
        self.tier = tier
        self.clean = {}
        self.states = {}       # hash -> (version, snap, history)
        self.transitions = 0
        self.builds_checked = 0
        self.noop_checked = 0
        self.crash_states = 0
        self.violations = []
        self.sigs = set()
        self.counter = 0

    def workdir(self):
        self.counter += 1
        return os.path.join(WORK, f"{self.mode}-{os.getpid()}-{self.counter}")

    def clean_build(self, version):
        if version not in self.clean:
            root = self.workdir()
            materialise(root, {})
            rc, muts, err = run_build(root, self.mode, version)
            self.clean[version] = (rc, outputs(root), len(muts))
            shutil.rmtree(root, ignore_errors=True)
        return self.clean[version]

    def violation(self, sig, msg, history, event):
        if sig in self.sigs:
            return
        self.sigs.add(sig)
        self.violations.append({"sig": f"{self.mode}:{sig}", "summary": f"[{self.mode} build] after {' ; '.join(history + [event])}: {msg}",
                                "replay": {"mode": self.mode, "events": history + [event], "message": msg}})

    def apply(self, version, snap, history, event):
        """Executes one event from a state; returns the successor (version, snap) and checks the oracle."""
        kind = event[0]
        if kind == "edit":
            return event[1], snap
        root = self.workdir()
        materialise(root, snap)
        ev_text = event_text(event)
        kw = {}
        if kind == "kill":
            kw["kill"] = event[1]
            kw["dirorder"] = event[2] if len(event) > 2 else "asc"
        elif kind == "tear":
            kw["tear"] = event[1]
        elif kind == "rustc-fail":
            kw["fail"] = event[1]
        rc, muts, err = run_build(root, self.mode, version, **kw)
        after = outputs(root)
        if kind == "build" or (kind in ("kill", "tear") and rc is not None) or kind == "rustc-fail":
            crc, cout, _ = self.clean_build(version)
            if rc == 0:
                self.builds_checked += 1
                if crc != 0:
                    self.violation("success-on-bad-source", f"the build reported success for a version whose clean build fails (exit {crc})", history, ev_text)
                elif after != cout:
                    diff = describe_diff(after, cout)
                    self.violation("stale:" + diff[0], f"the build reported success but the output differs from a clean build of the current source: {diff[1]}", history, ev_text)
                else:
                    # nothing changed since this successful build: a further build must not rewrite anything
                    rc2, muts2, _ = run_build(root, self.mode, version)
                    self.noop_checked += 1
                    if rc2 != 0:
                        self.violation("noop-build-fails", f"a second build right after a successful one exits with {rc2}", history, ev_text)
                    elif muts2:
                        self.violation("noop-build-writes", f"a second build right after a successful one performed {len(muts2)} file-system mutations: {muts2[:4]}", history, ev_text)
                    elif outputs(root) != cout:
                        self.violation("noop-build-changes", "a second build right after a successful one changed the output", history, ev_text)
            elif rc is not None and crc == 0 and kind == "build":
                self.violation("build-fails", f"the build of a compilable version fails with exit {rc}: {err[-300:]}", history, ev_text)
            elif rc is not None and rc != 0 and rc != 1:
                self.violation("build-crashes", f"the build exits with status {rc}: {err[-300:]}", history, ev_text)
        shutil.rmtree(root, ignore_errors=True)
        return version, after

    def events_for(self, version, snap):
        evs = [("edit", v) for v in VERSIONS if v != version]
        evs.append(("build",))
        # crash points: as many as the build from this state would perform (record mode tells)
        root = self.workdir()
        materialise(root, snap)
        rc, muts, _ = run_build(root, self.mode, version)
        shutil.rmtree(root, ignore_errors=True)
        # a build that removes files walks a directory listing: its crash points are explored under both listing orders
        orders = DIR_ORDERS if any(m[0] == "unlink" and m[1].startswith("comp/") for m in muts) else DIR_ORDERS[:1]
        for k in range(1, len(muts) + 1):
            for o in orders:
                evs.append(("kill", k, o))
            if muts[k - 1][0] == "write" and muts[k - 1][2] >= 2:
                evs.append(("tear", k))
        if self.mode == "component" and rc == 0:
            comps = sorted(set(os.path.basename(m[1])[:-3] for m in muts if m[1].endswith(".rs") and m[1].startswith("comp/")))
            for c in comps:
                evs.append(("rustc-fail", c))
        return evs, len(muts)

    def explore(self, dev_bound, post_depth, state_cap, wall_cap, t0):
        """Deviation-bounded search: level 0 = closure of the initial state under edits and builds;
        level d = every crash / torn-write / failing-rustc event applied to every state of level d-1,
        closed again under edits and builds (to depth post_depth, None = fixpoint)."""
        init = ("v1", {})
        h0 = snap_hash(*init)
        self.states[h0] = (init[0], init[1], [])
        self.capped = False

        def step(frontier, deviations):
            def expand(h):
                version, snap, history = self.states[h]
                evs, _ = self.events_for(version, snap)
                out = []
                for ev in evs:
                    is_dev = ev[0] in ("kill", "tear", "rustc-fail")
                    if is_dev != deviations:
                        continue
                    v2, s2 = self.apply(version, snap, history, ev)
                    out.append((ev, v2, s2))
                return h, out
            with ThreadPoolExecutor(max_workers=common.NCPU) as ex:
                results = list(ex.map(expand, frontier))
            nxt = []
            for h, out in results:
                version, snap, history = self.states[h]
                for ev, v2, s2 in out:
                    self.transitions += 1
                    h2 = snap_hash(v2, s2)
                    if h2 not in self.states:
                        self.states[h2] = (v2, s2, history + [event_text(ev)])
                        nxt.append(h2)
                        if deviations and s2 != snap:
                            crc, cout, _ = self.clean_build(v2)
                            if s2 != cout:
                                self.crash_states += 1
            return nxt

        def closure(seed_states, max_depth):
            level = list(seed_states)
            allnew = list(seed_states)
            depth = 0
            while level:
                if max_depth is not None and depth >= max_depth:
                    return allnew, False
                if len(self.states) > state_cap or time.time() - t0 > wall_cap:
                    self.capped = True
                    return allnew, False
                level = step(level, deviations=False)
                allnew += level
                depth += 1
            return allnew, True

        complete = True
        level_states, fix = closure([h0], None)
        complete &= fix
        devs_done = 0
        for d in range(1, dev_bound + 1):
            if self.capped:
                break
            crashed = step(level_states, deviations=True)
            level_states, fix = closure(crashed, post_depth)
            complete &= fix
            devs_done = d
            if not crashed:
                break
        return devs_done, complete and not self.capped, self.capped


def event_text(ev):
    if ev[0] == "edit":
        return f"edit to {ev[1]}"
    if ev[0] == "build":
        return "build"
    if ev[0] == "kill":
        return f"build killed before its mutation #{ev[1]}" + (f" (directory listings in order {ev[2]})" if len(ev) > 2 and ev[2] != "asc" else "")
    if ev[0] == "tear":
        return f"build killed in the middle of write #{ev[1]}"
    return f"build with rustc failing for {ev[1]}"


def describe_diff(got, want):
    extra = sorted(set(got) - set(want))
    missing = sorted(set(want) - set(got))
    differ = sorted(k for k in got if k in want and got[k] != want[k])
    kind = "extra-file" if extra else "missing-file" if missing else "content"
    ext = lambda k: re.sub(r"^.*\.", "", k.rstrip("/"))
    first = (extra + missing + differ)[0]
    return f"{kind}:{ext(first)}", f"extra files {extra[:4]}, missing files {missing[:4]}, files with different content {differ[:4]}"


def selftest_against_strace():
    """The injector's record of a build must equal strace's record of the same build."""
    root = os.path.join(WORK, f"selftest-{os.getpid()}")
    materialise(root, {})
    rc, muts, _ = run_build(root, "component", "v1")
    inj = [(c if c != "open-creat" else "open-trunc", p) for c, p, _ in muts]
    materialise(root, {})
    with open(os.path.join(root, "src", "t.eql"), "w") as f:
        f.write(VERSIONS["v1"])
    st = os.path.join(root, "strace.log")
    cmd = ["strace", "-f", "-y", "-o", st, "-e", "trace=open,openat,write,unlink,unlinkat,mkdir,mkdirat,rename,renameat,renameat2,ftruncate",
           common.EQLOG_BIN, os.path.join(root, "src"), os.path.join(root, "out"), "--build-type", "component", "--component-out-dir",
           os.path.join(root, "comp"), "--rustc-path", FAKERUSTC, "--runtime-rlib-path", "/dev/null"]
    subprocess.run(cmd, env=common.env_offline({"RAYON_NUM_THREADS": "1"}), stdout=subprocess.PIPE, stderr=subprocess.PIPE, timeout=120)
    seen = []
    watched = (os.path.join(root, "out"), os.path.join(root, "comp"))
    with open(st) as f:
        for line in f:
            m = re.match(r"\d+\s+(\w+)\((.*)", line)
            if not m or "= -1" in line:
                continue
            call, rest = m.group(1), m.group(2)
            paths = re.findall(r'"([^"]+)"|<([^>]+)>', rest)
            paths = [a or b for a, b in paths]
            wp = [p for p in paths if p.startswith(watched)]
            if not wp:
                continue
            rel = os.path.relpath(wp[0], root)
            if call in ("open", "openat"):
                if "O_WRONLY" in rest or "O_RDWR" in rest:
                    if "O_TRUNC" in rest or "O_CREAT" in rest:
                        seen.append(("open-trunc", rel))
            elif call == "write":
                seen.append(("write", rel))
            elif call in ("unlink", "unlinkat"):
                seen.append(("unlink", rel))
            elif call in ("mkdir", "mkdirat"):
                seen.append(("mkdir", rel))
            else:
                seen.append((call, rel))
    shutil.rmtree(root, ignore_errors=True)
    if rc != 0 or not inj:
        raise common.MachineryError(f"injector self-test: the recorded build failed (rc={rc}, {len(inj)} mutations)")
    if inj != seen:
        raise common.MachineryError(f"injector self-test: LD_PRELOAD record and strace record differ:\n  injector: {inj}\n  strace:   {seen}")
    return len(inj)


def run(pid, tier, seed):
    t0 = time.time()
    common.build_compiler()
    build_tools()
    shutil.rmtree(WORK, ignore_errors=True)
    os.makedirs(WORK, exist_ok=True)
    n_self = selftest_against_strace()
    violations = []
    cov = {"modes": {}}
    totals = dict(states=0, transitions=0, builds=0, noops=0, crash=0)
    exhaustive = True
    samples = []
    # (deviation bound, closure depth after a deviation [None = fixpoint], state cap, wall cap)
    # (the wall caps are safety nets far above the normal running time: what is explored must not depend on machine load)
    plan = {"quick": {"module": (1, None, 4000, 900), "component": (1, 2, 4000, 900)},
            "thorough": {"module": (3, None, 60000, 1500), "component": (2, None, 60000, 3000)}}[tier]
    for mode in ("module", "component"):
        ex = Explorer(mode, tier)
        dev_bound, post_depth, state_cap, wall = plan[mode]
        t1 = time.time()
        depth_done, fixpoint, capped = ex.explore(dev_bound, post_depth, state_cap, wall, t1)
        cov["modes"][mode] = {"states": len(ex.states), "transitions": ex.transitions, "successful_builds_compared_with_clean_build": ex.builds_checked,
                              "noop_builds_checked": ex.noop_checked, "crash_states_differing_from_clean": ex.crash_states,
                              "deviation_bound_completed": depth_done, "closure_depth_after_deviation": post_depth if post_depth is not None else "fixpoint",
                              "closed_under_edit_and_build": fixpoint, "capped": capped, "wall_s": round(time.time() - t1, 1)}
        totals["states"] += len(ex.states); totals["transitions"] += ex.transitions; totals["builds"] += ex.builds_checked
        totals["noops"] += ex.noop_checked; totals["crash"] += ex.crash_states
        exhaustive = exhaustive and fixpoint
        violations += ex.violations
        hs = [s[2] for s in ex.states.values() if len(s[2]) >= 3][:2]
        samples += [{"mode": mode, "events": h} for h in hs]
    shutil.rmtree(WORK, ignore_errors=True)
    cov.update({
        "evaluations": totals["transitions"], "distinct_nontrivial": totals["crash"],
        "deviation_rule": "crashes (kill before mutation k, torn write k) and failing rustc are deviations; everything with 0 deviations is explored to a fixpoint, then 1, 2, ... deviations",
        "rule": "a case is a transition (event applied to a reachable (version, directory-content) state) executed with the real eqlog binary under the LD_PRELOAD injector; distinct_nontrivial = distinct crash states (reached by a killed or torn build) that differ both from their predecessor and from the clean build",
        "states": totals["states"], "transitions": totals["transitions"], "successful_builds_compared_with_clean_build": totals["builds"],
        "noop_builds_checked": totals["noops"], "injector_selftest_mutations": n_self, "versions": list(VERSIONS),
        "exhaustive": exhaustive, "samples": samples or [{"mode": "module", "events": ["build"]}],
    })
    return common.finish(pid, tier, "fault_enumeration", cov, violations, t0,
                         ["rustc is replaced by a stand-in whose output is a function of the component source (real rustc under crash injection is not explored)",
                          "components are built with RAYON_NUM_THREADS=1; crash states in which two components are simultaneously half-built are not enumerated (each component's recovery reads only its own files)",
                          "the LD_PRELOAD injector sees every mutation: validated against strace at the start of every run",
                          "four source versions (two rules / body changed / rule replaced / not compilable)"], seed)


def replay(pid, path):
    common.build_compiler()
    build_tools()
    with open(path) as f:
        v = json.load(f)
    case = v.get("replay", v)
    os.makedirs(WORK, exist_ok=True)
    ex = Explorer(case["mode"], "quick")
    version, snap, hist = "v1", {}, []
    for text in case["events"]:
        m = re.match(r"edit to (\w+)", text)
        if m:
            ev = ("edit", m.group(1))
        elif text == "build":
            ev = ("build",)
        elif "before its mutation" in text:
            ev = ("kill", int(re.search(r"#(\d+)", text).group(1)), (re.search(r"listings in order ([\w:,]+)\)", text).group(1) if "listings in order" in text else "asc"))
        elif "middle of write" in text:
            ev = ("tear", int(text.split("#")[1]))
        else:
            ev = ("rustc-fail", text.split()[-1])
        version, snap = ex.apply(version, snap, hist, ev)
        hist.append(text)
    shutil.rmtree(WORK, ignore_errors=True)
    if ex.violations:
        for x in ex.violations:
            print(f"REPLAY-VIOLATION property={pid} {x['summary']}")
        return 1
    print(f"REPLAY-OK property={pid}: no violation on this tree")
    return 0

"""Dispatch table: property id -> run / replay functions."""
import json, os, subprocess, time
import common

TABLE = {}


def register(pid, run, replay):
    TABLE[pid] = {"run": run, "replay": replay}


# ---------------------------------------------------------------- runtime containers (C08, C14, C18)
CONTAINER_LEVEL = {"C08": "model_checking", "C14": "model_checking", "C18": "exploration"}
CONTAINER_ASSUME = {
    "C08": ["tuples range over the stated pools (all of {0,1}^N resp. {0,1,2}^N for N<=3, five tuples per arity for N>=4 incl. one with pairwise distinct columns)",
            "get_mut / iter_restrictions_mut are excluded: the property does not list them and the source documents that they can break the non-empty-subtree invariant",
            "std BTreeSet is the reference"],
    "C14": ["keys range over a universe of K consecutive integers; values are not part of the state key (the map is parametric in V)",
            "WBTreeMap::mapped (unused by the runtime) is outside the property's operation list and is not explored",
            "std BTreeMap is the reference; the balance predicate is the repository's own is_weight_balanced"],
    "C18": ["dom/cod are partial functions and all referenced objects are in the object table (what the generated caller passes)",
            "order among incomparable morphisms is not constrained"],
}


def run_containers(pid, tier, seed):
    t0 = time.time()
    binary = common.build_engine("containers")
    res = common.run_engine(binary, [pid, "--tier", tier], timeout=4 * 3600)
    viol = res.get("violations", [])
    return common.finish(pid, tier, CONTAINER_LEVEL[pid], res, viol, t0, CONTAINER_ASSUME[pid], seed)


def replay_containers(pid, path):
    binary = common.build_engine("containers")
    p = subprocess.run([binary, pid, "--replay", path], env=common.env_offline())
    return p.returncode


for _p in ("C08", "C14", "C18"):
    register(_p, run_containers, replay_containers)

"""Dispatch table: property id -> run / replay functions."""
import json, os, subprocess, time
import common

TABLE = {}


def register(pid, run, replay):
    TABLE[pid] = {"run": run, "replay": replay}


# ---------------------------------------------------------------- runtime containers (C08, C14, C18)
CONTAINER_LEVEL = {"C08": "model_checking", "C14": "model_checking", "C18": "exploration"}
CONTAINER_ASSUME = {
    "C08": ["tuples range over the stated pools (all of {0,1}^N resp. {0,1,2}^N for N<=3, five tuples per arity for N>=4 incl. one with pairwise distinct columns)",
            "get_mut / iter_restrictions_mut are excluded: the property does not list them and the source documents that they can break the non-empty-subtree invariant",
            "std BTreeSet is the reference"],
    "C14": ["keys range over a universe of K consecutive integers; values are not part of the state key (the map is parametric in V)",
            "WBTreeMap::mapped (unused by the runtime) is outside the property's operation list and is not explored",
            "std BTreeMap is the reference; the balance predicate is the repository's own is_weight_balanced"],
    "C18": ["dom/cod are partial functions and all referenced objects are in the object table (what the generated caller passes)",
            "order among incomparable morphisms is not constrained"],
}


def run_containers(pid, tier, seed):
    t0 = time.time()
    binary = common.build_engine("containers")
    env = common.env_offline()
    if pid == "C14":
        # the weight-balance parameter is the one the repository documents
        import re
        with open(os.path.join(common.REPO, "eqlog-runtime", "src", "wbtree", "map.rs")) as f:
            m = re.search(r"const DELTA: usize = (\d+);", f.read())
        if m:
            env["VERIF_WB_DELTA"] = m.group(1)
    res = common.run_engine(binary, [pid, "--tier", tier], timeout=4 * 3600, env=env)
    viol = res.get("violations", [])
    return common.finish(pid, tier, CONTAINER_LEVEL[pid], res, viol, t0, CONTAINER_ASSUME[pid], seed)


def replay_containers(pid, path):
    binary = common.build_engine("containers")
    p = subprocess.run([binary, pid, "--replay", path], env=common.env_offline())
    return p.returncode


for _p in ("C08", "C14", "C18"):
    register(_p, run_containers, replay_containers)


# ---------------------------------------------------------------- generated models (explorer)
import modelgen

MODEL_ASSUME_COMMON = [
    "programs range over the curated corpus /verif/corpus/k (one or more theories per compiler feature), inputs over histories up to the reported depth from preludes of 1-2 elements per type",
    "the reference semantics (naive evaluation of the source rules by /verif/engine/models/src/refsem.rs on the AST of /verif/lib/eqlparse.py) is the oracle; it is anchored on the repository's own test expectations",
    "theories with model declarations are explored under C17 only (same oracles plus inheritance)",
]
MODEL_ASSUME = {
    "C02": ["histories whose reference chase exceeds the element/round cap are counted as inconclusive, never reported"],
    "C03": ["histories are grouped by their set of assertions modulo the order of new_ calls of one type"],
    "C06": ["the iteration bound 16*ids*(sum of ids^arity + 2) exceeds what a correct surjective closure can need"],
    "C07": ["conditions range over ground atoms on the caller's elements, true/false and stop-at-k-th-evaluation"],
    "C17": ["only histories whose free model has an acyclic morphism graph are explored (cycles are rejected by design)",
            "member predicates / functions over global types; member types and @ are outside the reference fragment"],
}


def model_batch(tier):
    """quick: curated corpus K; thorough: K plus the 37 single-rule programs of corpus G."""
    if tier == "thorough":
        return "kg", modelgen.load_corpus("k") + modelgen.load_corpus("g")
    return "k", modelgen.load_corpus("k")


SWEEP_PROPS = ("C01", "C02", "C03", "C04", "C05", "C06", "C16")


def merge_results(parts):
    """Sums the counts of several engine runs (one per harness binary) into one coverage record."""
    out = None
    for r in parts:
        if out is None:
            out = dict(r)
            continue
        for k, v in r.items():
            if k in ("violations", "per_theory", "samples"):
                out[k] = list(out.get(k, [])) + list(v)
            elif k == "exhaustive":
                out[k] = bool(out.get(k, True)) and bool(v)
            elif k == "transcripts" and isinstance(v, dict):
                out.setdefault(k, {}).update(v)
            elif k.startswith("max_"):
                out[k] = max(out.get(k, 0), v)
            elif isinstance(v, bool) or not isinstance(v, (int, float)):
                out.setdefault(k, v)
            else:
                out[k] = out.get(k, 0) + v
    if out is not None and "samples" in out:
        out["samples"] = out["samples"][:8]
    return out or {}


def run_sweep(pid, tier):
    """Corpus S (systematic rule-shape sweep, lib/sgen.py) on the sharded harness. Candidates the compiler rejects
    are only allowed where the generator marked them (`may_be_rejected`: conclusion pool S2)."""
    theories = modelgen.load_corpus("s")
    bins, infos = modelgen.build_models_sharded("s", theories)
    src = dict(theories)
    rejected = [i for i in infos if not i["ok"]]
    unexpected = [i for i in rejected if not modelgen.read_meta(src[i["name"]]).get("may_be_rejected") or i.get("rc") != 1]
    if unexpected:
        raise common.MachineryError("sweep theories failed to build: " + "; ".join(f"{i['name']}: {i.get('error','')[:300]}" for i in unexpected[:5]))
    parts = [common.run_engine(b, [pid, "--tier", tier], timeout=6 * 3600) for b in bins]
    res = merge_results(parts)
    res["sweep_theories"] = len(infos) - len(rejected)
    res["sweep_candidates_rejected_by_compiler"] = len(rejected)
    return res


def run_models(pid, tier, seed):
    t0 = time.time()
    batch, theories = model_batch(tier)
    binary, infos = modelgen.build_models(batch, theories)
    bad = [i for i in infos if not i["ok"]]
    if bad:
        raise common.MachineryError("corpus theories failed to build: " + "; ".join(f"{i['name']}: {i.get('error','')[:300]}" for i in bad[:5]))
    res = common.run_engine(binary, [pid, "--tier", tier], timeout=6 * 3600)
    assume = MODEL_ASSUME_COMMON + MODEL_ASSUME.get(pid, [])
    if pid in SWEEP_PROPS and not os.environ.get("VERIF_NO_SWEEP"):   # experiments only; registered commands never set it
        sw = run_sweep(pid, tier)
        res["curated_theories"] = res.get("theories", 0)
        res = merge_results([res, sw])
        assume = assume + ["corpus S (corpus/s, generated by lib/sgen.py): every rule with a premise of one atom or an unordered pair of atoms over z/p/c/q/f/t/m with at most three variables, modulo renaming, each with a witness conclusion; plus a pool of conclusion shapes on a fixed premise (candidates the compiler rejects are skipped and counted)"]
    if pid == "C05":
        # union-find half of the property: explicit-state search over the real eqlog_runtime::Unification
        ub = common.build_engine("containers")
        ur = common.run_engine(ub, ["C05", "--tier", tier], timeout=3600)
        res["unification"] = {k: v for k, v in ur.items() if k not in ("violations", "samples")}
        res["unification"]["samples"] = ur.get("samples", [])[:2]
        for k in ("states", "transitions", "traces_validated_against_impl", "evaluations", "distinct_nontrivial"):
            res[k] = res.get(k, 0) + ur.get(k, 0)
        res["violations"] = list(res.get("violations", [])) + list(ur.get("violations", []))
        assume = assume + ["union-find: every reachable parent vector of eqlog_runtime::Unification<u32> over at most 6 (quick) / 7 (thorough) elements under root / union_roots_into / increase_size_to, against a plain partition"]
    viol = res.get("violations", [])
    neg = negative_corpus(pid)
    viol += neg["violations"]
    res["negative_programs_checked"] = neg["checked"]
    return common.finish(pid, tier, "model_checking", res, viol, t0, assume, seed)


def negative_corpus(pid):
    """Compile-time half of C06 / C15: programs that would let close() allocate elements without `!`
    resp. create enum elements without a constructor must be rejected by the compiler."""
    import shutil
    ndir = os.path.join(common.ROOT, "corpus", "neg")
    out = {"checked": 0, "violations": []}
    if not os.path.isdir(ndir):
        return out
    for f in sorted(os.listdir(ndir)):
        if not f.endswith(".eql"):
            continue
        with open(os.path.join(ndir, f)) as fh:
            src = fh.read()
        meta = modelgen.read_meta(src)
        if meta.get("property") != pid:
            continue
        out["checked"] += 1
        wd = os.path.join(common.BUILD, "neg", f"{pid}-{os.getpid()}")
        text, rc, err = modelgen.compile_theory(common.EQLOG_BIN, f[:-4], src, wd)
        shutil.rmtree(wd, ignore_errors=True)
        if rc == 0:
            out["violations"].append({"sig": f"neg:{f[:-4]}:accepted", "summary": f"the compiler accepts corpus/neg/{f}: {meta.get('why','')}",
                                      "replay": {"negative_program": f, "text": src}})
    return out


def replay_models(pid, path):
    with open(path) as f:
        case = json.load(f)
    case = case.get("replay", case)
    if "unification_ops" in case:
        binary = common.build_engine("containers")
        return subprocess.run([binary, pid, "--replay", path], env=common.env_offline()).returncode
    if "negative_program" in case:
        common.build_compiler()
        neg = negative_corpus(pid)
        hit = [v for v in neg["violations"] if v["replay"]["negative_program"] == case["negative_program"]]
        print(f"REPLAY-VIOLATION property={pid} {hit[0]['summary']}" if hit else f"REPLAY-OK property={pid}: the program is rejected")
        return 1 if hit else 0
    th = str(case.get("theory", ""))
    if th.startswith("s_"):
        theories = modelgen.load_corpus("s")
        bins, _ = modelgen.build_models_sharded("s", theories)
        names = [n for n, _ in theories]
        binary = bins[names.index(th) % modelgen.NSHARDS] if th in names else bins[0]
    else:
        batch, theories = model_batch("thorough" if th.startswith(("ga_", "gb_")) else "quick")
        binary, _ = modelgen.build_models(batch, theories)
    p = subprocess.run([binary, pid, "--replay", path], env=common.env_offline())
    return p.returncode


for _p in ("C01", "C02", "C03", "C04", "C05", "C06", "C07", "C15", "C17"):
    register(_p, run_models, replay_models)


# ---------------------------------------------------------------- C20: determinism of model evaluation
FORBIDDEN = ["HashMap", "HashSet", "RandomState", "Instant::", "SystemTime", "thread::", "as *const", "as *mut", "addr()", "rand::"]


def scan_nondeterminism_sources():
    """Supporting text scan: generated modules and non-test runtime code use no unordered container,
    clock, thread or pointer-to-integer cast."""
    import re
    hits = []
    files = []
    gen = os.path.join(modelgen.GEN, "k")
    for f in sorted(os.listdir(gen)):
        if f.endswith(".eql.rs"):
            files.append(os.path.join(gen, f))
    rt = os.path.join(common.REPO, "eqlog-runtime", "src")
    for root, _, fs in os.walk(rt):
        for f in fs:
            if f.endswith(".rs"):
                files.append(os.path.join(root, f))
    for path in files:
        text = open(path).read()
        cut = text.find("#[cfg(test)]")
        if cut >= 0:
            text = text[:cut]
        for n, line in enumerate(text.splitlines(), 1):
            code = line.split("//")[0]
            for tok in FORBIDDEN:
                if tok in code:
                    # the documented raw-pointer use of IterMut is scheduling-independent: it stores a
                    # pointer, never orders or hashes by it
                    if tok in ("as *mut", "as *const") and "wbtree/map.rs" in path:
                        continue
                    hits.append((path, n, tok, line.strip()[:160]))
    return files, hits


def run_c20(pid, tier, seed):
    t0 = time.time()
    binary, infos = modelgen.build_models("k", modelgen.load_corpus("k"))
    bad = [i for i in infos if not i["ok"]]
    if bad:
        raise common.MachineryError("corpus theories failed to build: " + "; ".join(i["name"] for i in bad))
    outdir = os.path.join(common.BUILD, "out", f"c20-{os.getpid()}")
    os.makedirs(outdir, exist_ok=True)
    pad = {f"VERIF_PAD_{i}": "x" * 997 for i in range(120)}
    depth = {"quick": "3", "thorough": "5"}[tier]
    configs = [
        ("plain", [], {}),
        ("aslr-off", ["setarch", "-R"], {}),
        ("padded-env+1-thread", [], dict(pad, RAYON_NUM_THREADS="1", MALLOC_ARENA_MAX="1", MALLOC_PERTURB_="165")),
        ("aslr-off+padded+3-threads", ["setarch", "-R"], dict(pad, RAYON_NUM_THREADS="3", MALLOC_TOP_PAD_="1048576")),
    ]
    dumps = {}
    res0 = None
    for name, prefix, env in configs:
        dump = os.path.join(outdir, name + ".tsv")
        # budgets are deterministic (transition counts); the wall-clock safety net must never decide what is explored here
        e = common.env_offline(dict(env, VERIF_DEPTH=depth, VERIF_THEORY_WALL="360000"))
        os.makedirs(os.path.join(common.BUILD, "out"), exist_ok=True)
        out = os.path.join(outdir, name + ".json")
        p = subprocess.run(prefix + [binary, "C20", "--tier", tier, "--out", out, "--dump-transcripts", dump], env=e,
                           stdout=subprocess.PIPE, stderr=subprocess.PIPE, timeout=4 * 3600)
        if p.returncode != 0:
            raise common.MachineryError(f"engine failed under configuration {name}: {p.stderr.decode()[-2000:]}")
        with open(out) as f:
            r = json.load(f)
        if any(t.get("cap_hit") == "wall-clock safety net" for t in r.get("per_theory", [])):
            raise common.MachineryError(f"configuration {name}: the wall-clock safety net cut the exploration; transcripts are not comparable")
        if res0 is None:
            res0 = r
        with open(dump) as f:
            dumps[name] = f.read().splitlines()
    violations = list(res0.get("violations", []))
    base = dumps["plain"]
    compared = 0
    for name in dumps:
        if name == "plain":
            continue
        other = dumps[name]
        compared += len(other)
        if other == base:
            continue
        bm = {tuple(l.split("\t")[:2]): l for l in base}
        diffs = []
        for l in other:
            k = tuple(l.split("\t")[:2])
            if bm.get(k) != l:
                diffs.append((l, bm.get(k)))
        if len(other) != len(base) and not diffs:
            diffs.append((f"{len(other)} explored histories", f"{len(base)} explored histories"))
        diffs.sort(key=lambda d: len(d[0]))
        l, b = diffs[0]
        parts = l.split("\t")
        violations.append({"sig": f"{parts[0]}:transcript-differs", "theory": parts[0],
                           "summary": f"the same API history gives different transcripts in configuration '{name}' and 'plain': {l!r} vs {b!r} ({len(diffs)} histories differ)",
                           "replay": {"theory": parts[0], "history_text": parts[3] if len(parts) > 3 else "", "config": name}})
    files, hits = scan_nondeterminism_sources()
    for path, n, tok, line in hits[:10]:
        violations.append({"sig": f"scan:{tok}:{os.path.basename(path)}", "summary": f"{path}:{n} uses `{tok}`: {line}",
                           "replay": {"file": path, "line": n, "token": tok}})
    cov = dict(res0)
    cov.pop("violations", None)
    cov["evaluations"] = len(base) * len(configs)
    cov["distinct_nontrivial"] = len(set(l.split("\t")[2] for l in base))
    cov["rule"] = ("every explored API history (BFS of the explorer, depth %s) is executed in %d process configurations; a case is a history, "
                   "distinct_nontrivial = number of distinct transcripts (ids, all iterator outputs in order, roots) observed" % (depth, len(configs)))
    cov["configurations"] = [c[0] for c in configs]
    cov["histories_per_configuration"] = len(base)
    cov["transcripts_compared"] = compared
    cov["files_scanned"] = len(files)
    cov["samples"] = [l.split("\t")[3] for l in base[len(base) // 2: len(base) // 2 + 3]] or ["(no history)"]
    import shutil
    shutil.rmtree(outdir, ignore_errors=True)
    return common.finish(pid, tier, "exploration", cov, violations, t0,
                         ["replaying a prefix inside the exploring process must reproduce its transcript (checked on every expansion)",
                          "address-space layout, environment size, allocator settings and harness thread count are the varied dimensions; there are no threads in generated code or runtime, so the schedule dimension is empty",
                          "the raw pointers of WBTreeMap::IterMut are exempt from the text scan: they are dereferenced, never compared or hashed"], seed)


def replay_c20(pid, path):
    print("C20 replays by re-running the quick configuration sweep")
    return run_c20(pid, "quick", 0)


register("C20", run_c20, replay_c20)


# ---------------------------------------------------------------- C16: semi-naive plans
def run_c16(pid, tier, seed):
    t0 = time.time()
    batch, theories = model_batch(tier)
    binary, infos = modelgen.build_models(batch, theories)
    bad = [i for i in infos if not i["ok"]]
    if bad:
        raise common.MachineryError("corpus theories failed to build: " + "; ".join(i["name"] for i in bad))
    res = common.run_engine(binary, [pid, "--tier", tier], timeout=6 * 3600)
    res["curated_theories"] = len(res.get("per_theory", []))
    if not os.environ.get("VERIF_NO_SWEEP"):
        res = merge_results([res, run_sweep(pid, tier)])
    return common.finish(pid, tier, "exploration", res, res.get("violations", []), t0,
                         ["the flat premise and conclusions of every rule family are read from the comment the compiler emits above each rule function (the property's own observation point); the comment is cross-checked against the index fields the function reads",
                          "rules with an empty premise are outside the quantifier (n = 0 atoms; documented in to_semi_naive as executed every iteration)",
                          "the implicit functionality rule is compared up to the symmetry the property grants",
                          "families whose premise involves an enum type are skipped (their elements cannot be created without a constructor)"], seed)


register("C16", run_c16, replay_models)


# ---------------------------------------------------------------- C11: diagnostics
import c11
register("C11", c11.run, c11.replay)


# ---------------------------------------------------------------- C12: incremental builds
import c12
register("C12", c12.run, c12.replay)


# ---------------------------------------------------------------- C09, C13 (CLI sweeps)
import cli_sweeps
register("C13", cli_sweeps.run_c13, cli_sweeps.replay_c13)
register("C09", cli_sweeps.run_c09, cli_sweeps.replay_c09)
register("C19", cli_sweeps.run_c19, cli_sweeps.replay_c19)


# ---------------------------------------------------------------- C10: static checks
import c10
register("C10", c10.run, c10.replay)

"""Dispatch table: property id -> run / replay functions."""
import json, os, subprocess, time
import common

TABLE = {}


def register(pid, run, replay):
    TABLE[pid] = {"run": run, "replay": replay}


# ---------------------------------------------------------------- runtime containers (C08, C14, C18)
CONTAINER_LEVEL = {"C08": "model_checking", "C14": "model_checking", "C18": "exploration"}
CONTAINER_ASSUME = {
    "C08": ["tuples range over the stated pools (all of {0,1}^N resp. {0,1,2}^N for N<=3, five tuples per arity for N>=4 incl. one with pairwise distinct columns)",
            "get_mut / iter_restrictions_mut are excluded: the property does not list them and the source documents that they can break the non-empty-subtree invariant",
            "std BTreeSet is the reference"],
    "C14": ["keys range over a universe of K consecutive integers; values are not part of the state key (the map is parametric in V)",
            "WBTreeMap::mapped (unused by the runtime) is outside the property's operation list and is not explored",
            "std BTreeMap is the reference; the balance predicate is the repository's own is_weight_balanced"],
    "C18": ["dom/cod are partial functions and all referenced objects are in the object table (what the generated caller passes)",
            "order among incomparable morphisms is not constrained"],
}


def run_containers(pid, tier, seed):
    t0 = time.time()
    binary = common.build_engine("containers")
    res = common.run_engine(binary, [pid, "--tier", tier], timeout=4 * 3600)
    viol = res.get("violations", [])
    return common.finish(pid, tier, CONTAINER_LEVEL[pid], res, viol, t0, CONTAINER_ASSUME[pid], seed)


def replay_containers(pid, path):
    binary = common.build_engine("containers")
    p = subprocess.run([binary, pid, "--replay", path], env=common.env_offline())
    return p.returncode


for _p in ("C08", "C14", "C18"):
    register(_p, run_containers, replay_containers)


# ---------------------------------------------------------------- generated models (explorer)
import modelgen

MODEL_ASSUME_COMMON = [
    "programs range over the curated corpus /verif/corpus/k (one or more theories per compiler feature), inputs over histories up to the reported depth from preludes of 1-2 elements per type",
    "the reference semantics (naive evaluation of the source rules by /verif/engine/models/src/refsem.rs on the AST of /verif/lib/eqlparse.py) is the oracle; it is anchored on the repository's own test expectations",
    "theories with model declarations are explored under C17 only (same oracles plus inheritance)",
]
MODEL_ASSUME = {
    "C02": ["histories whose reference chase exceeds the element/round cap are counted as inconclusive, never reported"],
    "C03": ["histories are grouped by their set of assertions modulo the order of new_ calls of one type"],
    "C06": ["the iteration bound 16*ids*(sum of ids^arity + 2) exceeds what a correct surjective closure can need"],
    "C07": ["conditions range over ground atoms on the caller's elements, true/false and stop-at-k-th-evaluation"],
    "C17": ["only histories whose free model has an acyclic morphism graph are explored (cycles are rejected by design)",
            "member predicates / functions over global types; member types and @ are outside the reference fragment"],
}


def run_models(pid, tier, seed):
    t0 = time.time()
    binary, infos = modelgen.build_models("k", modelgen.load_corpus("k"))
    bad = [i for i in infos if not i["ok"]]
    if bad:
        raise common.MachineryError("corpus theories failed to build: " + "; ".join(f"{i['name']}: {i.get('error','')[:300]}" for i in bad[:5]))
    res = common.run_engine(binary, [pid, "--tier", tier], timeout=6 * 3600)
    viol = res.get("violations", [])
    return common.finish(pid, tier, "model_checking", res, viol, t0, MODEL_ASSUME_COMMON + MODEL_ASSUME.get(pid, []), seed)


def replay_models(pid, path):
    binary, _ = modelgen.build_models("k", modelgen.load_corpus("k"))
    p = subprocess.run([binary, pid, "--replay", path], env=common.env_offline())
    return p.returncode


for _p in ("C01", "C02", "C03", "C04", "C05", "C06", "C07", "C15", "C17"):
    register(_p, run_models, replay_models)

"""Corpus S: a systematic sweep of rule shapes for the model explorer.

S1 (premise shapes): ALL rules `if A; [if B;] then w(<every variable>);` over the fixed signature below whose
premise consists of one atom or of an unordered pair of atoms of the kinds
    z()   p(a)   c() = a   q(a, b)   f(a) = b   t(a, b, c)   m(a, b) = c
over at most three variables, modulo renaming of variables (variables are named x, y, z by first occurrence;
every way of identifying argument positions is enumerated, so every repeated-variable / diagonal pattern and
every join pattern between the two atoms occurs).  The conclusion is a witness predicate holding exactly the
tuples of matched variables, so the set of matches a rule finds is visible in the closed model.

S2 (conclusion shapes): a fixed premise with every conclusion of a pool of then-statements (tuples, equalities
between variables and terms, `!` with and without `:=`, nested terms, constants); candidates the compiler
rejects are skipped by the caller (they are C10's business).

Rules are bundled four to a theory (same atom kinds, so the search menu stays small); each rule of a bundle
has its own witness predicate, so one rule's conclusions cannot mask another's.

S3 (premise equalities) and S4 (one generating atom plus two fully bound atoms) are described at their generators.

`python3 lib/sgen.py` rewrites corpus/s/ (committed; the check reads the files).
"""
import itertools, json, os, sys

SIG = ["type A;", "pred z();", "pred p(A);", "pred q(A, A);", "pred t(A, A, A);",
       "func c() -> A;", "func f(A) -> A;", "func m(A, A) -> A;"]
# kind -> (number of variable positions, printer)
KINDS = {
    "z": (0, lambda v: "z()"),
    "p": (1, lambda v: f"p({v[0]})"),
    "c": (1, lambda v: f"c() = {v[0]}"),
    "q": (2, lambda v: f"q({v[0]}, {v[1]})"),
    "f": (2, lambda v: f"f({v[0]}) = {v[1]}"),
    "t": (3, lambda v: f"t({v[0]}, {v[1]}, {v[2]})"),
    "m": (3, lambda v: f"m({v[0]}, {v[1]}) = {v[2]}"),
}
ORDER = ["z", "p", "c", "q", "f", "t", "m"]
VARS = ["x", "y", "z"]
BUNDLE = 4


def partitions(n, maxblocks):
    """Restricted growth strings of length n with at most maxblocks blocks."""
    def rec(prefix, used):
        if len(prefix) == n:
            yield tuple(prefix)
            return
        for b in range(min(used + 1, maxblocks)):
            yield from rec(prefix + [b], max(used, b + 1))
    yield from rec([], 0)


def premises():
    """[(group, [atom text...], number of variables)] in a fixed order."""
    out = []
    for k in ORDER:
        n, pr = KINDS[k]
        for part in partitions(n, 3):
            vs = [VARS[b] for b in part]
            out.append((k, [pr(vs)], len(set(part))))
    for i, ka in enumerate(ORDER):
        for kb in ORDER[i:]:
            na, pa = KINDS[ka]
            nb, pb = KINDS[kb]
            seen = set()
            for part in partitions(na + nb, 3):
                vs = [VARS[b] for b in part]
                a, b = pa(vs[:na]), pb(vs[na:])
                if ka == kb:
                    # unordered: the pair (B, A) renamed by first occurrence is the same premise
                    swapped = vs[na:] + vs[:na]
                    ren = {}
                    for v in swapped:
                        if v not in ren:
                            ren[v] = VARS[len(ren)]
                    sw = [ren[v] for v in swapped]
                    key = min((a, b), (pa(sw[:na]), pb(sw[na:])))
                    if key in seen:
                        continue
                    seen.add(key)
                out.append((ka + kb, [a, b], len(set(part))))
    return out


WITNESS = {0: "", 1: "A", 2: "A, A", 3: "A, A, A"}


def bundle_theories():
    groups = {}
    for g, atoms, nv in premises():
        groups.setdefault(g, []).append((atoms, nv))
    theories = []
    for g in sorted(groups, key=lambda g: (len(g), [ORDER.index(c) for c in g])):
        rules = groups[g]
        for start in range(0, len(rules), BUNDLE):
            chunk = rules[start:start + BUNDLE]
            name = f"s_{g}_{'abcdefghijklmnopqrstuvwxyz'[start // BUNDLE // 26]}{'abcdefghijklmnopqrstuvwxyz'[start // BUNDLE % 26]}"
            lines = list(SIG)
            wit = []
            body = []
            for ri, (atoms, nv) in enumerate(chunk):
                w = f"w{'abcd'[ri]}"
                wit.append(w)
                lines.append(f"pred {w}({WITNESS[nv]});")
                body.append(f"rule r{'abcd'[ri]} {{")
                for a in atoms:
                    body.append(f"    if {a};")
                body.append(f"    then {w}({', '.join(VARS[:nv])});")
                body.append("}")
            used = sorted(set(g), key=ORDER.index)
            meta = {"no_insert": wit, "menu_rels": used, "sweep": "S1", "max_defines": 0}
            theories.append((name, "//@ " + json.dumps(meta) + "\n" + "\n".join(lines + body) + "\n"))
    return theories


S2_PREMISES = [("qa", ["q(x, y)"]), ("qf", ["q(x, y)", "f(x) = u"])]
S2_THENS = ["p(x)", "q(y, x)", "q(x, x)", "t(x, y, x)", "t(y, y, y)", "z()", "x = y", "f(x) = y", "f(y) = x", "f(x) = f(y)",
            "m(x, y) = x", "m(x, x) = y", "c() = x", "p(c())", "f(x)!", "f(y)!", "m(x, y)!", "m(y, x)!", "c()!",
            "v := f(x)!;\n    then p(v)", "v := f(y)!;\n    then q(v, x)", "v := m(x, y)!;\n    then q(v, v)", "v := c()!;\n    then q(v, y)",
            "p(f(x))", "q(f(x), y)", "q(u, y)", "u = y", "f(u) = x", "m(u, u) = u", "t(u, x, y)", "v := m(u, y)!;\n    then t(v, u, y)",
            "f(f(x)) = y", "f(u)!", "m(u, f(x))!"]


def s2_candidates():
    import re
    out = []
    for pn, prem in S2_PREMISES:
        for k, th in enumerate(S2_THENS):
            uses_u = re.search(r"\bu\b", th) is not None
            if uses_u != (pn == "qf"):
                continue
            name = f"s_then_{pn}_{'abcdefghijklmnopqrstuvwxyz'[k // 26]}{'abcdefghijklmnopqrstuvwxyz'[k % 26]}"
            lines = list(SIG) + ["rule ra {"] + [f"    if {a};" for a in prem] + [f"    then {th};", "}"]
            meta = {"menu_rels": ["q", "f", "p"], "sweep": "S2", "may_be_rejected": True, "max_defines": 1}
            out.append((name, "//@ " + json.dumps(meta) + "\n" + "\n".join(lines) + "\n"))
    return out


S3_SIG = ["type A;", "pred r(A);", "pred s(A);", "pred t(A);", "func f(A) -> A;"]
# binder sequences: (atom text, variables it binds)
S3_BINDERS = [
    ("", [("r(x)", "x"), ("s(y)", "y"), ("t(z)", "z")], False),
    # x and y bound together by a function atom (its result variable is a second name for a term over x)
    ("f", [("y = f(x)", "xy"), ("t(z)", "z")], True),
    ("g", [("t(z)", "z"), ("f(x) = y", "xy")], True),
]


def s3_theories():
    """S3 (premise equalities): a sequence of binders - r(x); s(y); t(z), or a function atom binding x and y plus t(z),
    in both orders - with one or two equalities between variables (both orientations) inserted at every position at
    which both sides are already bound. For the function-atom binders only the rules whose two equalities connect all
    three variables are generated."""
    eqs = [("x", "y"), ("y", "x"), ("y", "z"), ("z", "y"), ("x", "z"), ("z", "x")]
    out = []
    for tag, binders, connected_only in S3_BINDERS:
        bound_at = {}
        for i, (_, vs) in enumerate(binders):
            for v in vs:
                bound_at.setdefault(v, i + 1)
        n = len(binders)

        def earliest(e):
            return max(bound_at[e[0]], bound_at[e[1]])
        rules = []
        if not connected_only:
            for e in eqs:
                for pos in range(earliest(e), n + 1):
                    rules.append([(pos, e)])
        for e1 in eqs:
            for e2 in eqs:
                if e1 == e2:
                    continue
                if connected_only and set(e1) | set(e2) != {"x", "y", "z"}:
                    continue
                for p1 in range(earliest(e1), n + 1):
                    for p2 in range(max(p1, earliest(e2)), n + 1):
                        rules.append([(p1, e1), (p2, e2)])
        for start in range(0, len(rules), BUNDLE):
            chunk = rules[start:start + BUNDLE]
            k = start // BUNDLE
            name = f"s_eq{tag}_{'abcdefghijklmnopqrstuvwxyz'[k // 26]}{'abcdefghijklmnopqrstuvwxyz'[k % 26]}"
            lines = list(S3_SIG)
            body, wit = [], []
            for ri, placed in enumerate(chunk):
                w = f"w{'abcd'[ri]}"
                wit.append(w)
                lines.append(f"pred {w}(A, A, A);")
                body.append(f"rule r{'abcd'[ri]} {{")
                for i, (btxt, _) in enumerate(binders):
                    body.append(f"    if {btxt};")
                    for pos, (a, c) in placed:
                        if pos == i + 1:
                            body.append(f"    if {a} = {c};")
                body.append(f"    then {w}(x, y, z);")
                body.append("}")
            used = ["r", "s", "t"] if not tag else ["t", "f"]
            meta = {"no_insert": wit, "menu_rels": used, "sweep": "S3", "max_defines": 1 if tag else 0, "elem_cap": 2, "depth_quick": 4, "depth_thorough": 5}
            out.append((name, "//@ " + json.dumps(meta) + "\n" + "\n".join(lines + body) + "\n"))
    return out


def s4_theories():
    """S4 (a generating atom plus two fully bound atoms): `if A1; if A2; if A3; then w(vars)` where A1 is q(x,y) or
    t(x,y,z) and A2, A3 are two different atoms over variables of A1 only (so both are compiled to emptiness guards at
    different nesting depths). All unordered pairs from the pools below."""
    pools = {
        "t(x, y, z)": ["p(x)", "p(y)", "p(z)", "q(x, y)", "q(y, x)", "q(x, z)", "q(z, x)", "q(y, z)", "q(z, y)",
                       "t(x, z, y)", "t(y, x, z)", "t(y, z, x)", "t(z, x, y)", "t(z, y, x)"],
        "q(x, y)": ["p(x)", "p(y)", "q(y, x)", "q(x, x)", "q(y, y)", "t(x, y, x)", "t(x, x, y)", "t(y, x, y)"],
    }
    rules = []
    for a1, pool in pools.items():
        for i in range(len(pool)):
            for j in range(i + 1, len(pool)):
                rules.append((a1, pool[i], pool[j], 3 if a1.startswith("t") else 2))
    out = []
    for start in range(0, len(rules), BUNDLE):
        chunk = rules[start:start + BUNDLE]
        k = start // BUNDLE
        name = f"s_guard_{'abcdefghijklmnopqrstuvwxyz'[k // 26]}{'abcdefghijklmnopqrstuvwxyz'[k % 26]}"
        lines = list(SIG)
        body, wit = [], []
        for ri, (a1, a2, a3, nv) in enumerate(chunk):
            w = f"w{'abcd'[ri]}"
            wit.append(w)
            lines.append(f"pred {w}({WITNESS[nv]});")
            body += [f"rule r{'abcd'[ri]} {{", f"    if {a1};", f"    if {a2};", f"    if {a3};", f"    then {w}({', '.join(VARS[:nv])});", "}"]
        meta = {"no_insert": wit, "menu_rels": ["p", "q", "t"], "sweep": "S4", "max_defines": 0}
        out.append((name, "//@ " + json.dumps(meta) + "\n" + "\n".join(lines + body) + "\n"))
    return out


S5_PREMISES = [
    (["p(f(x))"], 1), (["q(f(x), y)"], 2), (["q(x, f(x))"], 1), (["q(f(x), f(y))"], 2), (["q(f(x), f(x))"], 1),
    (["t(f(x), m(x, y), c())"], 2), (["f(f(x)) = x"], 1), (["f(f(x)) = y"], 2), (["m(f(x), f(y)) = z"], 3),
    (["f(x) = f(y)"], 2), (["m(x, y) = m(y, x)"], 2), (["f(c()) = x"], 1), (["p(m(x, x))"], 1),
    (["q(m(x, y), m(y, x))"], 2), (["m(x, f(x)) = x"], 1), (["m(m(x, y), z) = x"], 3), (["p(f(f(f(x))))"], 1),
    (["q(x, y)", "p(f(y))"], 2), (["p(x)", "f(x) = f(y)", "p(y)"], 2), (["f(x)!", "p(x)"], 1), (["m(x, y)!", "q(y, x)"], 2),
    (["q(c(), x)"], 1), (["t(x, c(), f(c()))"], 1), (["m(c(), c()) = x"], 1),
]


def s5_theories():
    """S5 (nested terms in premises): function applications nested in predicate arguments and in each other, equalities
    between applications, definedness atoms; witness conclusions as in S1."""
    out = []
    for start in range(0, len(S5_PREMISES), BUNDLE):
        chunk = S5_PREMISES[start:start + BUNDLE]
        k = start // BUNDLE
        name = f"s_nest_{'abcdefghijklmnopqrstuvwxyz'[k // 26]}{'abcdefghijklmnopqrstuvwxyz'[k % 26]}"
        lines = list(SIG)
        body, wit = [], []
        for ri, (atoms, nv) in enumerate(chunk):
            w = f"w{'abcd'[ri]}"
            wit.append(w)
            lines.append(f"pred {w}({WITNESS[nv]});")
            body.append(f"rule r{'abcd'[ri]} {{")
            body += [f"    if {a};" for a in atoms]
            body += [f"    then {w}({', '.join(VARS[:nv])});", "}"]
        import re
        used = sorted({m for atoms, _ in chunk for a in atoms for m in re.findall(r"\b([pqtcfmz])\(", a)}, key=ORDER.index)
        meta = {"no_insert": wit, "menu_rels": used, "sweep": "S5", "max_defines": 1}
        out.append((name, "//@ " + json.dumps(meta) + "\n" + "\n".join(lines + body) + "\n"))
    return out


def main():
    root = os.path.dirname(os.path.dirname(os.path.abspath(__file__)))
    d = os.path.join(root, "corpus", "s")
    os.makedirs(d, exist_ok=True)
    want = dict(bundle_theories() + s2_candidates() + s3_theories() + s4_theories() + s5_theories())
    for f in os.listdir(d):
        if f.endswith(".eql") and f[:-4] not in want:
            os.unlink(os.path.join(d, f))
    for name, text in want.items():
        with open(os.path.join(d, name + ".eql"), "w") as fh:
            fh.write(text)
    n_rules = sum(t.count("\nrule ") for t in want.values())
    print(f"{len(want)} theories, {n_rules} rules, {len(premises())} premises in S1")


if __name__ == "__main__":
    main()

"""C11 - deviation-bounded exploration of source texts around seeds: every layout variant, every
truncation, every single token edit (and pairs in a window, thorough) is fed to the real eqlog CLI;
the answer must be success or a well-formed diagnostic."""
import hashlib, json, multiprocessing, os, re, shutil, subprocess, sys, time
import common

SEEDS = os.path.join(common.ROOT, "corpus", "c11_seeds")
WORK = os.path.join(common.BUILD, "c11")

TOKEN_RE = re.compile(r"(//[^\n]*)|(:=|->|=>|[A-Za-z][A-Za-z0-9'_]*|[(){},;:=!.@_])")
CLASSES_ALL = ["type", "pred", "func", "rule", "enum", "model", "if", "then", "branch", "along", "match", "Foo", "foo",
               "(", ")", "{", "}", ",", ";", ":", ":=", "=", "!", ".", "->", "=>", "@", "_", "dom", "cod", "Mor", "é", "0", "x'"]
CLASSES_QUICK = [";", "(", "}", "foo", "Foo", "then", "é", "=", "!", "_"]


def tokens(src):
    out = []
    for m in TOKEN_RE.finditer(src):
        if m.group(2) is not None:
            out.append((m.start(2), m.end(2), m.group(2)))
    return out


def variants(s):
    """Layout variants that do not move tokens between lines. (name, text, compare_excerpts)"""
    lines = s.split("\n")
    body = s
    out = [("lf", body)]
    out.append(("crlf", body.replace("\n", "\r\n")))
    out.append(("no-trailing-newline", body.rstrip("\n")))
    out.append(("crlf-no-trailing-newline", body.rstrip("\n").replace("\n", "\r\n")))
    out.append(("extra-blank-lines", body + "\n\n\n"))
    out.append(("trailing-spaces", "\n".join(l + "  " if l.strip() else l for l in lines)))
    out.append(("tabs", "\n".join(re.sub(r"^( {4})+", lambda m: "\t" * (len(m.group(0)) // 4), l) for l in lines)))
    mb = "\n".join((l + " // é→\U0001F600") if (l.strip() and "//" not in l) else (l + " é→" if "//" in l else l) for l in lines)
    out.append(("multibyte-comments", mb))
    out.append(("crlf-multibyte-comments", mb.replace("\n", "\r\n")))
    out.append(("leading-bom-less-blank", body))  # identical to lf: a repeated execution must agree
    return out


ERR_LOC = re.compile(r"^\s*--> (.*):(\d+)\s*$")
ERR_EXC = re.compile(r"^\s*(\d+) \| (.*)$")
ERR_CARET = re.compile(r"^(\s*) \| ([ ^]*)$")


def judge(text, rc, stderr, timed_out):
    """Returns (ok, sig, message, summary) for one run."""
    if timed_out:
        return False, "timeout", "compilation did not terminate within the time limit", None
    if rc == 0:
        return True, None, None, ("ok", [], [])
    if rc != 1:
        first = ""
        for l in stderr.splitlines():
            if "panicked at" in l:
                first = l.strip()
                break
        msgline = ""
        ls = stderr.splitlines()
        for i, l in enumerate(ls):
            if "panicked at" in l and i + 1 < len(ls):
                msgline = ls[i + 1].strip()
        where = re.sub(r":\d+:\d+:?", "", first.split("panicked at")[-1].strip()) if first else ""
        what = re.sub(r"\d+", "#", msgline)
        what = re.split(r"[;:`(]", what)[0].strip()[:50]
        return False, f"crash:{rc}:{where}:{what}", f"exit status {rc} (panic or crash): {first} {msgline}", None
    lines = stderr.split("\n")
    if not lines or not lines[0].startswith("Error: "):
        return False, "no-error-header", f"exit 1 without an 'Error:' header: {stderr[:200]!r}", None
    cls = lines[0]
    # input lines: split on \n, one trailing \r removed
    in_lines = text.split("\n")
    if in_lines and in_lines[-1] == "":
        in_lines = in_lines[:-1]
    in_lines = [l[:-1] if l.endswith("\r") else l for l in in_lines]
    nums = []
    excerpts = []
    saw_loc = False
    last_exc = None
    for l in lines[1:]:
        m = ERR_LOC.match(l)
        if m:
            saw_loc = True
            n = int(m.group(2))
            nums.append(n)
            if not (1 <= n <= max(1, len(in_lines))):
                return False, "line-out-of-range", f"diagnostic names line {n} but the file has {len(in_lines)} lines", None
            continue
        m = ERR_EXC.match(l)
        if m:
            n = int(m.group(1))
            got = m.group(2)
            if not (1 <= n <= len(in_lines)):
                return False, "excerpt-line-out-of-range", f"excerpt for line {n} but the file has {len(in_lines)} lines", None
            want = in_lines[n - 1]
            # the renderer prints `N | ` + line; an empty line is printed as `N | ` (regex drops nothing)
            if got != want:
                return False, "excerpt-mismatch", f"excerpt for line {n} is {got!r} but line {n} of the input is {want!r}", None
            excerpts.append((n, got.rstrip()))
            last_exc = (n, got)
            continue
        m = ERR_CARET.match(l)
        if m and last_exc is not None and "^" in l:
            carets = m.group(2)
            width = len(last_exc[1].encode("utf-8"))
            if len(carets.rstrip()) > width:
                return False, "caret-outside-excerpt", f"caret line {carets!r} is longer than the excerpt line ({width} bytes)", None
    if not saw_loc:
        return False, "no-location", f"error message without a '--> path:N' line: {stderr[:300]!r}", None
    return True, None, None, (cls, nums, excerpts)


_worker_dir = None


def _init_worker():
    global _worker_dir
    _worker_dir = os.path.join(WORK, f"w{os.getpid()}")
    shutil.rmtree(_worker_dir, ignore_errors=True)
    os.makedirs(os.path.join(_worker_dir, "src"))
    os.makedirs(os.path.join(_worker_dir, "out"))


def run_text(text):
    src = os.path.join(_worker_dir, "src", "t.eql")
    with open(src, "wb") as f:
        f.write(text.encode("utf-8"))
    out = os.path.join(_worker_dir, "out", "t.eql.rs")
    if os.path.exists(out):
        os.unlink(out)
    # a run that exceeds 20 s is repeated once with a generous limit, so that machine load cannot
    # turn into a verdict; only a run that still does not finish counts as a hang
    for limit in (20, 300):
        try:
            p = subprocess.run([common.EQLOG_BIN, os.path.join(_worker_dir, "src"), os.path.join(_worker_dir, "out")],
                               stdout=subprocess.PIPE, stderr=subprocess.PIPE, timeout=limit, env=common.env_offline({"RUST_BACKTRACE": "0"}))
            return p.returncode, p.stderr.decode("utf-8", "replace"), False
        except subprocess.TimeoutExpired:
            continue
    return -1, "", True


def _job(args):
    seed, kind, text = args
    rc, err, to = run_text(text)
    ok, sig, msg, summ = judge(text, rc, err, to)
    return seed, kind, ok, sig, msg, summ, rc


def make_cases(tier):
    seeds = sorted(os.listdir(SEEDS))
    texts = {}
    for s in seeds:
        with open(os.path.join(SEEDS, s)) as f:
            texts[s] = f.read()
    by_size = sorted(seeds, key=lambda s: len(texts[s]))
    if tier == "quick":
        errs = [s for s in by_size if s.startswith("err_")][:8]
        oks = [s for s in by_size if s.startswith("ok_")][:5]
        chosen = errs + oks
        classes = CLASSES_QUICK
        byte_trunc = set(by_size[:4])
    else:
        chosen = [s for s in by_size if len(texts[s]) <= 1600]
        classes = CLASSES_ALL
        byte_trunc = set(s for s in chosen if len(texts[s]) <= 700)
    cases = []
    for s in seeds:  # deviation 0 for every seed
        for name, t in variants(texts[s]):
            cases.append((s, f"layout:{name}", t))
    for s in chosen:
        t = texts[s]
        toks = tokens(t)
        cuts = set(e for _, e, _ in toks) | set(b for b, _, _ in toks)
        if s in byte_trunc:
            cuts |= set(range(len(t) + 1))
        for c in sorted(cuts):
            cases.append((s, f"truncate@{c}", t[:c]))
            if tier != "quick" or c % 3 == 0:
                cases.append((s, f"truncate@{c}+crlf", t[:c].replace("\n", "\r\n")))
        for i, (b, e, tok) in enumerate(toks):
            cases.append((s, f"delete#{i}", t[:b] + t[e:]))
            cases.append((s, f"duplicate#{i}", t[:e] + " " + tok + t[e:]))
            cases.append((s, f"delete#{i}+crlf", (t[:b] + t[e:]).replace("\n", "\r\n")))
            for c in classes:
                if c == tok:
                    continue
                cases.append((s, f"replace#{i}:{c}", t[:b] + c + t[e:]))
                if tier != "quick":
                    cases.append((s, f"replace#{i}:{c}+crlf", (t[:b] + c + t[e:]).replace("\n", "\r\n")))
        if tier != "quick" and s in by_size[:12]:
            # deviation 2: pairs of token edits within a window of 3 tokens
            for i in range(len(toks)):
                for j in range(i + 1, min(i + 4, len(toks))):
                    (b1, e1, _), (b2, e2, _) = toks[i], toks[j]
                    cases.append((s, f"delete#{i}+delete#{j}", t[:b1] + t[e1:b2] + t[e2:]))
                    for c in CLASSES_QUICK:
                        cases.append((s, f"replace#{i}:{c}+delete#{j}", t[:b1] + c + t[e1:b2] + t[e2:]))
                        cases.append((s, f"delete#{i}+replace#{j}:{c}", t[:b1] + t[e1:b2] + c + t[e2:]))
    # de-duplicate identical texts per seed
    seen = set()
    out = []
    for s, k, t in cases:
        key = (s, hashlib.sha1(t.encode("utf-8")).digest()) if not k.startswith("layout:") else (s, k)
        if key in seen:
            continue
        seen.add(key)
        out.append((s, k, t))
    return out, texts


def run(pid, tier, seed):
    t0 = time.time()
    common.build_compiler()
    shutil.rmtree(WORK, ignore_errors=True)
    os.makedirs(WORK, exist_ok=True)
    cases, texts = make_cases(tier)
    violations = []
    sigs = {}
    outcomes = {}
    layouts = {}
    n = 0
    with multiprocessing.Pool(common.NCPU, initializer=_init_worker) as pool:
        for seed_name, kind, ok, sig, msg, summ, rc in pool.imap_unordered(_job, cases, chunksize=16):
            n += 1
            key = ("ok" if rc == 0 else "error" if ok else "bad")
            outcomes[key] = outcomes.get(key, 0) + 1
            if kind.startswith("layout:") and ok:
                layouts.setdefault(seed_name, {})[kind[7:]] = summ
            if not ok:
                s = f"{sig}"
                sigs.setdefault(s, []).append((len(kind), seed_name, kind, msg))
    case_text = {(s, k): t for s, k, t in cases}
    for s, lst in sorted(sigs.items()):
        lst.sort()
        _, seed_name, kind, msg = lst[0]
        violations.append({"sig": s, "summary": f"{msg} [seed {seed_name}, edit {kind}; {len(lst)} inputs with this signature]",
                           "replay": {"seed": seed_name, "edit": kind, "text": case_text[(seed_name, kind)], "count": len(lst)}})
    # metamorphic clause on layouts
    meta_checked = 0
    for seed_name, m in sorted(layouts.items()):
        base = m.get("lf")
        if base is None:
            continue
        for name, summ in sorted(m.items()):
            meta_checked += 1
            same = summ[0] == base[0] and summ[1] == base[1]
            if summ[0] == base[0] == "Error: unexpected end of file":
                # the reported position is the end of the file, which these variants legitimately move
                same = True
                name = "eof"
            if name in ("crlf", "no-trailing-newline", "crlf-no-trailing-newline", "extra-blank-lines", "trailing-spaces", "leading-bom-less-blank"):
                same = same and summ[2] == base[2]
            if not same:
                violations.append({"sig": f"layout-changes-diagnostic:{name}", "summary": f"seed {seed_name}: layout variant {name} changes the diagnostic: {summ} vs {base} under LF",
                                   "replay": {"seed": seed_name, "edit": f"layout:{name}", "text": dict((k, t) for k, t in variants(texts[seed_name]))[name]}})
    shutil.rmtree(WORK, ignore_errors=True)
    distinct = len(set(hashlib.sha1(t.encode()).digest() for _, _, t in cases))
    cov = {
        "evaluations": n, "distinct_nontrivial": distinct,
        "rule": "cases are source texts at deviation 0 (10 layout variants of every seed), 1 (every truncation at token/byte boundaries; deletion, duplication and replacement of each token by each token class, LF and CRLF) and, thorough, 2 (pairs of token edits within a window of 3) from the seeds; distinct_nontrivial = number of distinct texts",
        "seeds": len(texts), "outcomes": outcomes, "layout_comparisons": meta_checked,
        "exhaustive": True,
        "samples": [{"seed": s, "edit": k, "text": t[:200]} for s, k, t in cases[len(cases) // 2: len(cases) // 2 + 3]],
    }
    return common.finish(pid, tier, "exploration", cov, violations, t0,
                         ["inputs are valid UTF-8 within the stated deviation bound from the 75 seed files (45 error sources, 30 accepted theories)",
                          "the diagnostic grammar checked is the one the compiler prints: 'Error: ..', '--> path:N', 'N | text', caret lines"], seed)


def replay(pid, path):
    common.build_compiler()
    with open(path) as f:
        v = json.load(f)
    case = v.get("replay", v)
    os.makedirs(WORK, exist_ok=True)
    _init_worker()
    r1 = run_text(case["text"])
    r2 = run_text(case["text"])
    if r1 != r2:
        print("MACHINERY-ERROR nondeterministic replay")
        return 2
    ok, sig, msg, _ = judge(case["text"], *r1)
    shutil.rmtree(WORK, ignore_errors=True)
    if ok:
        print(f"REPLAY-OK property={pid}: well-formed answer (exit {r1[0]})")
        return 0
    print(f"REPLAY-VIOLATION property={pid} {sig}: {msg}")
    return 1

import common, modelgen, c12


def main():
    common.build_engine("containers")
    print("setup: containers engine built")
    common.build_compiler()
    print("setup: eqlog compiler built")
    b, infos = modelgen.build_models("k", modelgen.load_corpus("k"))
    print("setup: models harness built,", sum(1 for i in infos if i["ok"]), "theories")
    bins, infos = modelgen.build_models_sharded("s", modelgen.load_corpus("s"))
    print("setup: sharded models harness (corpus S) built,", sum(1 for i in infos if i["ok"]), "theories")
    c12.build_tools()
    print("setup: injector and stand-in rustc built")

import common


def main():
    common.build_engine("containers")
    print("setup: containers engine built")
    common.build_compiler()
    print("setup: eqlog compiler built")

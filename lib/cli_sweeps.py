"""C09 (accepted programs yield Rust that compiles, both build modes), C13 (compilation is
deterministic), C19 static part (module build and component build agree textually)."""
import hashlib, json, os, re, shutil, subprocess, sys, time
from concurrent.futures import ThreadPoolExecutor
import common, modelgen, c12

WORK = os.path.join(common.BUILD, "cli")


def programs(tier):
    """(name, source) of accepted programs: corpus K, the repository's accepted theories, corpus G."""
    out = []
    for name, src in modelgen.load_corpus("k"):
        out.append((name, src))
    seeds = os.path.join(common.ROOT, "corpus", "c11_seeds")
    for f in sorted(os.listdir(seeds)):
        if f.startswith("ok_"):
            with open(os.path.join(seeds, f)) as fh:
                out.append(("seed_" + f[3:-4], fh.read()))
    gdir = os.path.join(common.ROOT, "corpus", "g")
    if os.path.isdir(gdir):
        for f in sorted(os.listdir(gdir)):
            if f.endswith(".eql"):
                with open(os.path.join(gdir, f)) as fh:
                    out.append((f[:-4], fh.read()))
    if tier == "thorough":
        # every small rule `if A; [if B;] then C;` of the C10 enumeration that the reference static
        # semantics finds well-formed: hundreds of further rule shapes for the code generator
        import c10, refstatic
        for label, text in c10.enumerated_rules():
            try:
                if not refstatic.analyse(text).present:
                    out.append((label, text))
            except Exception:
                pass
    if tier == "quick":
        quick = [p for p in out if modelgen.read_meta(p[1]).get("quick")]
        rest = [p for p in out if not modelgen.read_meta(p[1]).get("quick")]
        out = quick + rest[::3]
    # corpus S (systematic rule-shape sweep): the theories that must be accepted; every tenth in the quick tier
    sweep = [p for p in modelgen.load_corpus("s") if not modelgen.read_meta(p[1]).get("may_be_rejected")]
    if tier != "thorough":
        # all single-atom premises (every repeated-variable pattern of every relation), all premise-equality placements,
        # every tenth of the pairs
        single = [p for p in sweep if len(p[0].split("_")[1]) == 1 or p[0].startswith("s_eq")]
        sweep = single + [p for p in sweep if p not in single][::10]
    out += sweep
    return out


def runtime_rlib():
    """The runtime library built from /repo/eqlog-runtime by the harness build (same flags for all harnesses)."""
    common.build_engine("containers")
    deps = os.path.join(common.TARGET_ENGINE, "debug", "deps")
    cands = sorted((os.path.getmtime(os.path.join(deps, f)), os.path.join(deps, f)) for f in os.listdir(deps)
                   if f.startswith("libeqlog_runtime-") and f.endswith(".rlib"))
    if not cands:
        raise common.MachineryError("runtime rlib not found")
    return cands[-1][1], deps


def compile_eql(root, name, src, mode, rustc, rlib, env=None, prefix=None, record=False):
    sdir, odir, cdir = os.path.join(root, "src"), os.path.join(root, "out"), os.path.join(root, "comp")
    for d in (sdir, odir, cdir):
        os.makedirs(d, exist_ok=True)
    with open(os.path.join(sdir, name + ".eql"), "w") as f:
        f.write(src)
    cmd = (prefix or []) + [common.EQLOG_BIN, sdir, odir]
    if mode == "component":
        cmd += ["--build-type", "component", "--component-out-dir", cdir, "--rustc-path", rustc, "--runtime-rlib-path", rlib]
    e = common.env_offline(env or {})
    if record:
        e.update({"LD_PRELOAD": c12.FSINJECT, "FSINJECT_ROOTS": odir + ":" + cdir, "FSINJECT_LOG": os.path.join(root, "fs.log"),
                  "FSINJECT_STATE": os.path.join(root, "fs.state")})
    p = subprocess.run(cmd, env=e, stdout=subprocess.PIPE, stderr=subprocess.PIPE, timeout=600)
    return p.returncode, p.stderr.decode("utf-8", "replace")


def text_outputs(root):
    """All generated text files (module, component sources, digests) keyed by relative path."""
    out = {}
    for sub in ("out", "comp"):
        base = os.path.join(root, sub)
        for d, _, fs in os.walk(base):
            for f in fs:
                if f.endswith((".rs", ".digest")):
                    p = os.path.join(d, f)
                    with open(p, "rb") as fh:
                        out[sub + "/" + os.path.relpath(p, base)] = fh.read()
    return out


# ------------------------------------------------------------------------------------------ C13
def run_c13(pid, tier, seed):
    t0 = time.time()
    common.build_compiler()
    c12.build_tools()
    shutil.rmtree(WORK, ignore_errors=True)
    progs = programs(tier)
    pad = {f"VERIF_PAD_{i}": "y" * 911 for i in range(100)}
    configs = [
        ("base", "a", {"RAYON_NUM_THREADS": "1"}, None),
        ("repeat", "a2", {"RAYON_NUM_THREADS": "1"}, None),
        ("threads-2", "b", {"RAYON_NUM_THREADS": "2"}, None),
        ("threads-16", "c", {"RAYON_NUM_THREADS": "16"}, None),
        ("deep-directory", "d/with/some/deeper/nesting/and_a_long_name_xxxxxxxxxxxxxxxxxxxxxxxxxxxxx", {"RAYON_NUM_THREADS": "3"}, None),
        ("aslr-off", "e", {"RAYON_NUM_THREADS": "4"}, ["setarch", "-R"]),
        ("padded-env", "f", dict(pad, RAYON_NUM_THREADS="5", MALLOC_PERTURB_="77"), None),
    ]
    if tier == "quick":
        configs = [configs[i] for i in (0, 1, 3, 4, 5)]
    violations = []
    sigs = set()
    stats = {"runs": 0, "files_compared": 0, "programs": 0, "writer_checks": 0}

    def one(prog):
        name, src = prog
        res = []
        for mode in ("module", "component"):
            base = None
            for cname, sub, env, prefix in configs:
                root = os.path.join(WORK, "c13", name, mode, sub)
                shutil.rmtree(root, ignore_errors=True)
                rc, err = compile_eql(root, name, src, mode, c12.FAKERUSTC, "/dev/null", env=env, prefix=prefix, record=(mode == "component"))
                outs = text_outputs(root) if rc == 0 else None
                writers = {}
                log = os.path.join(root, "fs.log")
                if os.path.exists(log):
                    with open(log) as f:
                        for line in f:
                            parts = line.split()
                            if len(parts) >= 4 and "/comp/" in parts[2] and not parts[2].endswith(f"/{name}.digest"):
                                comp = re.sub(r"^lib|\.(rs|rlib|digest)$", "", os.path.basename(parts[2]))
                                writers.setdefault(comp, set()).add("rustc" if parts[2].endswith(".rlib") else parts[0].split(":")[1])
                res.append((mode, cname, rc, err, outs, writers))
            shutil.rmtree(os.path.join(WORK, "c13", name, mode), ignore_errors=True)
        return name, res

    with ThreadPoolExecutor(max_workers=max(2, common.NCPU // 2)) as ex:
        results = list(ex.map(one, progs))
    for name, res in results:
        stats["programs"] += 1
        for mode in ("module", "component"):
            runs = [r for r in res if r[0] == mode]
            base = runs[0]
            for r in runs:
                stats["runs"] += 1
                _, cname, rc, err, outs, writers = r
                if rc != base[2]:
                    sig = f"exit-status-differs:{mode}:{cname}"
                    if sig not in sigs:
                        sigs.add(sig)
                        violations.append({"sig": sig, "summary": f"program {name} ({mode} build): exit status {rc} under configuration {cname}, {base[2]} under base", "replay": {"program": name, "mode": mode, "config": cname}})
                    continue
                if rc != 0:
                    continue
                for comp, ws in writers.items():
                    stats["writer_checks"] += 1
                    ws2 = ws - {"rustc"}
                    if len(ws2) > 1:
                        sig = f"two-writers:{mode}"
                        if sig not in sigs:
                            sigs.add(sig)
                            violations.append({"sig": sig, "summary": f"program {name}: files of component {comp} were written by several tasks {sorted(ws2)}", "replay": {"program": name, "mode": mode, "config": cname}})
                stats["files_compared"] += len(outs)
                if outs != base[4]:
                    diff = sorted(k for k in set(outs) | set(base[4]) if outs.get(k) != base[4].get(k))
                    kind = re.sub(r"^.*\.", "", diff[0])
                    sig = f"output-differs:{mode}:{cname}:{kind}"
                    if sig not in sigs:
                        sigs.add(sig)
                        a, b = outs.get(diff[0], b""), base[4].get(diff[0], b"")
                        pos = next((i for i in range(min(len(a), len(b))) if a[i] != b[i]), min(len(a), len(b)))
                        violations.append({"sig": sig, "summary": f"program {name} ({mode} build): generated files differ between configuration {cname} and base: {diff[:4]}; first difference in {diff[0]} at byte {pos}: {a[max(0,pos-40):pos+40]!r} vs {b[max(0,pos-40):pos+40]!r}",
                                           "replay": {"program": name, "mode": mode, "config": cname, "files": diff[:6]}})
    # ---- sibling dimension: a theory's output must not depend on which other theories are compiled by
    # the same process (same directory), nor on whether those are digest-skipped
    base_outs = {}
    for name, res in results:
        for mode in ("module", "component"):
            runs = [r for r in res if r[0] == mode]
            if runs and runs[0][2] == 0:
                base_outs[(name, mode)] = runs[0][4]
    groups = [("all-together", progs), ("every-second", progs[::2]), ("reversed-tail", list(reversed(progs[len(progs) // 3:])))]
    stats["sibling_runs"] = 0
    for gname, members in groups:
        for mode in ("module", "component"):
            root = os.path.join(WORK, "c13", "_siblings", gname, mode)
            shutil.rmtree(root, ignore_errors=True)
            sdir, odir, cdir = os.path.join(root, "src"), os.path.join(root, "out"), os.path.join(root, "comp")
            for d in (sdir, odir, cdir):
                os.makedirs(d)
            for name, src in members:
                with open(os.path.join(sdir, name + ".eql"), "w") as f:
                    f.write(src)
            cmd = [common.EQLOG_BIN, sdir, odir]
            if mode == "component":
                cmd += ["--build-type", "component", "--component-out-dir", cdir, "--rustc-path", c12.FAKERUSTC, "--runtime-rlib-path", "/dev/null"]
            for attempt in ("fresh", "after-deleting-every-third-output"):
                if attempt != "fresh":
                    # remove some outputs so that the remaining theories are digest-skipped in this process
                    for i, (name, _) in enumerate(members):
                        if i % 3 == 0:
                            for pth in (os.path.join(odir, name + ".eql.rs"), os.path.join(cdir, name + ".eql")):
                                if os.path.isdir(pth):
                                    shutil.rmtree(pth)
                                elif os.path.exists(pth):
                                    os.unlink(pth)
                p = subprocess.run(cmd, env=common.env_offline({"RAYON_NUM_THREADS": "4"}), stdout=subprocess.PIPE, stderr=subprocess.PIPE, timeout=1800)
                stats["sibling_runs"] += 1
                if p.returncode != 0:
                    sig = f"siblings-exit:{mode}:{gname}"
                    if sig not in sigs:
                        sigs.add(sig)
                        violations.append({"sig": sig, "summary": f"compiling {len(members)} accepted programs in one directory ({mode} build, {gname}, {attempt}) exits {p.returncode}: {p.stderr.decode('utf-8','replace')[-300:]}", "replay": {"group": gname, "mode": mode}})
                    break
                outs = text_outputs(root)
                for name, _ in members:
                    mine = {k: v for k, v in outs.items() if k == f"out/{name}.eql.rs" or k.startswith(f"comp/{name}.eql/")}
                    want = base_outs.get((name, mode))
                    if want is None:
                        continue
                    stats["files_compared"] += len(mine)
                    if mine != want:
                        diff = sorted(k for k in set(mine) | set(want) if mine.get(k) != want.get(k))
                        sig = f"output-depends-on-siblings:{mode}"
                        if sig not in sigs:
                            sigs.add(sig)
                            a, b = mine.get(diff[0], b""), want.get(diff[0], b"")
                            pos = next((i for i in range(min(len(a), len(b))) if a[i] != b[i]), min(len(a), len(b)))
                            violations.append({"sig": sig, "summary": f"program {name} ({mode} build): output differs when it is compiled together with other theories ({gname}, {attempt}) from when it is compiled alone: {diff[:4]}; first difference in {diff[0]} at byte {pos}: {a[max(0,pos-40):pos+40]!r} vs {b[max(0,pos-40):pos+40]!r}",
                                               "replay": {"program": name, "mode": mode, "group": gname, "attempt": attempt, "files": diff[:6]}})
            shutil.rmtree(root, ignore_errors=True)
    shutil.rmtree(WORK, ignore_errors=True)
    cov = {"evaluations": stats["runs"] + stats["sibling_runs"], "distinct_nontrivial": stats["programs"] * 2, "sibling_groupings": [g[0] for g in groups],
           "rule": "a case is one compilation of one accepted program in one build mode under one configuration (repetition, 1/2/16 worker threads, directory depth and name, ASLR off, padded environment with allocator perturbation); distinct_nontrivial = program x build-mode pairs whose outputs were compared across all configurations",
           "programs": stats["programs"], "configurations": [c[0] for c in configs], "files_compared": stats["files_compared"],
           "component_writer_checks": stats["writer_checks"], "exhaustive": True,
           "samples": [{"program": p[0], "modes": ["module", "component"], "configurations": [c[0] for c in configs]} for p in progs[:3]]}
    return common.finish(pid, tier, "exploration", cov, violations, t0,
                         ["the interleavings of the rayon bridge are not explored exhaustively (rayon is not instrumentable by loom/shuttle); thread counts are varied and the injector's record shows that each component's files are written by one task only",
                          "component builds use the stand-in rustc (libraries are not compared; sources and digests are)"], seed)


def replay_c13(pid, path):
    print("C13 replays by re-running the quick configuration sweep")
    return run_c13(pid, "quick", 0)


# ------------------------------------------------------------------------------------------ C09
MAIN_TEMPLATE = """#![allow(warnings)]
mod m {{ include!("{module}"); }}
fn main() {{
    let mut x = m::{struct}::new();
    x.close();
    println!("closed");
}}
"""


def run_c09(pid, tier, seed):
    t0 = time.time()
    common.build_compiler()
    rlib, deps = runtime_rlib()
    shutil.rmtree(WORK, ignore_errors=True)
    progs = programs(tier)
    link_all = tier != "quick"
    violations = []
    sigs = set()
    stats = {"eqlog_runs": 0, "rustc_runs": 0, "linked_and_run": 0}

    def rustc(args, cwd):
        p = subprocess.run(["rustc"] + args, cwd=cwd, env=common.env_offline(), stdout=subprocess.PIPE, stderr=subprocess.PIPE, timeout=900)
        return p.returncode, p.stderr.decode("utf-8", "replace")

    def one(arg):
        idx, (name, src) = arg
        out = []
        nonterm = not modelgen.read_meta(src).get("quick") and "triple_join" in name
        for mode in ("module", "component"):
            root = os.path.join(WORK, "c09", name, mode)
            shutil.rmtree(root, ignore_errors=True)
            rc, err = compile_eql(root, name, src, mode, "rustc", rlib, env={"RAYON_NUM_THREADS": "2"})
            out.append(("eqlog", mode, rc, err))
            if rc != 0:
                continue
            module = os.path.join(root, "out", name + ".eql.rs")
            wrapper = os.path.join(root, "wrapper.rs")
            with open(wrapper, "w") as f:
                f.write(f'#![allow(warnings)]\npub mod m {{ include!("{module}"); }}\n')
            rc2, err2 = rustc(["--edition", "2021", "--crate-type", "lib", "--emit=metadata", "-o", os.path.join(root, "libw.rmeta"),
                               "--extern", f"eqlog_runtime={rlib}", "-L", f"dependency={deps}", wrapper], root)
            out.append(("rustc-module", mode, rc2, err2))
            do_link = link_all or idx < 4
            if rc2 == 0 and do_link and "close_would_not_terminate" not in src:
                with open(module) as f:
                    sm = re.search(r"/// A model of the `(\w+)` theory", f.read())
                main = os.path.join(root, "main.rs")
                with open(main, "w") as f:
                    f.write(MAIN_TEMPLATE.format(module=module, struct=sm.group(1)))
                args = ["--edition", "2021", "-o", os.path.join(root, "main"), "--extern", f"eqlog_runtime={rlib}", "-L", f"dependency={deps}", main]
                if mode == "component":
                    cdir = os.path.join(root, "comp", name + ".eql")
                    args += ["-L", f"native={cdir}"]
                    for f in sorted(os.listdir(cdir)):
                        if f.endswith(".rlib"):
                            args += ["-l", f"static:+verbatim={f}"]
                rc3, err3 = rustc(args, root)
                out.append(("rustc-link", mode, rc3, err3))
                if rc3 == 0:
                    try:
                        p = subprocess.run([os.path.join(root, "main")], stdout=subprocess.PIPE, stderr=subprocess.PIPE, timeout=20)
                        out.append(("run", mode, p.returncode, p.stderr.decode("utf-8", "replace")))
                    except subprocess.TimeoutExpired:
                        out.append(("run", mode, 0, "timeout (close() of the empty model does not terminate for this theory)"))
            shutil.rmtree(root, ignore_errors=True)
        return name, out

    with ThreadPoolExecutor(max_workers=common.NCPU) as ex:
        results = list(ex.map(one, list(enumerate(progs))))
    for name, out in results:
        for step, mode, rc, err in out:
            if step == "eqlog":
                stats["eqlog_runs"] += 1
            elif step == "run":
                stats["linked_and_run"] += 1
            else:
                stats["rustc_runs"] += 1
            if rc != 0:
                first = next((l for l in err.splitlines() if l.startswith("error") or "panicked" in l), err[:200])
                sig = f"{step}:{mode}:{re.sub(r'[0-9]+', '#', first)[:80]}"
                if sig not in sigs:
                    sigs.add(sig)
                    violations.append({"sig": sig, "summary": f"program {name}, {mode} build, step {step}: exit {rc}: {first} | {err[-400:]}",
                                       "replay": {"program": name, "mode": mode, "step": step}})
    shutil.rmtree(WORK, ignore_errors=True)
    cov = {"evaluations": stats["eqlog_runs"] + stats["rustc_runs"] + stats["linked_and_run"], "distinct_nontrivial": len(progs),
           "rule": "every accepted program of the corpora (curated K, the repository's own accepted theories, generated family G) is compiled by the CLI in module and in component mode (real rustc for every component); the module is type-checked by rustc in both flavours; a subset (thorough: all) is linked against the runtime (component mode: against the component libraries) and run; distinct_nontrivial = number of distinct programs",
           "programs": len(progs), **stats, "exhaustive": True,
           "samples": [{"program": n, "steps": [(s, m, rc) for s, m, rc, _ in o]} for n, o in results[:3]]}
    return common.finish(pid, tier, "exploration", cov, violations, t0,
                         ["identifiers of the corpus programs are not Rust keywords and relations have at most 9 columns",
                          "rustc is the installed toolchain; the runtime library is built from /repo/eqlog-runtime"], seed)


def replay_c09(pid, path):
    print("C09 replays by re-running the quick sweep")
    return run_c09(pid, "quick", 0)


# ------------------------------------------------------------------------------------------ C19 (static part)
def split_module(text):
    """Returns (env structs by name, link names, rule module bodies by module name)."""
    envs = {}
    for m in re.finditer(r"#\[allow\(unused\)\]\npub struct (\w+Env)<'a> \{\n(.*?)\n\}\n", text, re.S):
        envs.setdefault(m.group(1), []).append(m.group(2))
    links = re.findall(r'#\[link_name = "(\w+)"\]', text)
    nomangle = re.findall(r"#\[unsafe\(no_mangle\)\]\s*pub fn (\w+)\(", text)
    return envs, links, nomangle


def strip_embedded_rule_modules(text):
    """Removes the top-level `mod <name> { ... }` blocks (brace matching; `//` comments ignored) and the digest trailer."""
    text = re.sub(r"// DIGEST: \w+\s*$", "", text)
    out, depth, inside = [], 0, False
    for line in text.splitlines():
        code = line.split("//")[0]
        if not inside and re.match(r"mod \w+ \{\s*$", line):
            inside, depth = True, 0
        if inside:
            depth += code.count("{") - code.count("}")
            if depth < 0:
                return None
            if depth == 0:
                inside = False
            continue
        out.append(line)
    return None if inside else "\n".join(out)


def static_c19(name, module_text_modulebuild, module_text_componentbuild, component_texts):
    """Textual agreement between the two builds of one program. Returns list of (sig, message)."""
    bad = []
    envs_m, links_m, nomangle_m = split_module(module_text_modulebuild)
    envs_c, links_c, nomangle_c = split_module(module_text_componentbuild)
    # the component-mode module declares what it imports
    comp_syms = []
    comp_envs = {}
    for fname, text in component_texts.items():
        e, _, nm = split_module(text)
        comp_syms += nm
        for k, v in e.items():
            comp_envs.setdefault(k, []).extend(v)
    if sorted(links_c) != sorted(comp_syms):
        bad.append(("symbols", f"the module imports {sorted(links_c)} but the component libraries export {sorted(comp_syms)}"))
    if len(set(links_c)) != len(links_c):
        bad.append(("duplicate-symbol", f"the module imports a symbol twice: {sorted(links_c)}"))
    for k, decls in envs_c.items():
        for d in decls:
            for cd in comp_envs.get(k, [None]):
                if cd is None:
                    bad.append(("env-missing", f"environment struct {k} is declared in the module but in no component"))
                elif cd != d:
                    bad.append(("env-differs", f"environment struct {k} is declared differently in the module and in its component:\n--- module\n{d}\n--- component\n{cd}"))
    for k in comp_envs:
        if k not in envs_c:
            bad.append(("env-missing-in-module", f"environment struct {k} is declared in a component but not in the module"))
    # module build embeds exactly the component text as submodules
    for fname, text in component_texts.items():
        body = text.strip()
        if body not in module_text_modulebuild:
            # tolerate indentation of the first line only
            core = "\n".join(body.splitlines()[1:])
            if core not in module_text_modulebuild:
                bad.append(("rule-code-differs", f"the source of component {fname} does not occur verbatim in the single-file module"))
    # outside the embedded rule code the two modules are the same text: in particular the struct, the environment
    # construction and the order in which close_until calls the rule functions agree
    stripped = strip_embedded_rule_modules(module_text_modulebuild)
    if stripped is None:
        bad.append(("module-shape", "the single-file module does not have the expected shape (top-level `mod <rule> { .. }` blocks)"))
    else:
        a = [l.rstrip() for l in stripped.strip().splitlines() if l.strip()]
        b = [l.rstrip() for l in re.sub(r"// DIGEST: \w+\s*$", "", module_text_componentbuild).strip().splitlines() if l.strip()]
        if a != b:
            import difflib
            d = [l for l in difflib.unified_diff(a, b, "module build (rule modules removed)", "component build", lineterm="", n=1)][:40]
            bad.append(("module-text-differs", "outside the embedded rule code the module of the module build and the module of the component build differ:\n" + "\n".join(d)))
    return bad


def run_c19_static(progs, rlib):
    results = []

    def one(prog):
        name, src = prog
        root_m = os.path.join(WORK, "c19", name, "module")
        root_c = os.path.join(WORK, "c19", name, "component")
        for r in (root_m, root_c):
            shutil.rmtree(r, ignore_errors=True)
        rc1, e1 = compile_eql(root_m, name, src, "module", None, None)
        rc2, e2 = compile_eql(root_c, name, src, "component", c12.FAKERUSTC, "/dev/null", env={"RAYON_NUM_THREADS": "2"})
        if rc1 != 0 or rc2 != 0:
            return name, [("build", f"module build exit {rc1}, component build exit {rc2}: {e1[-200:]} {e2[-200:]}")], 0
        with open(os.path.join(root_m, "out", name + ".eql.rs")) as f:
            mm = f.read()
        with open(os.path.join(root_c, "out", name + ".eql.rs")) as f:
            mc = f.read()
        cdir = os.path.join(root_c, "comp", name + ".eql")
        comps = {}
        for f in sorted(os.listdir(cdir)):
            if f.endswith(".rs"):
                with open(os.path.join(cdir, f)) as fh:
                    comps[f] = fh.read()
        bad = static_c19(name, mm, mc, comps)
        shutil.rmtree(os.path.join(WORK, "c19", name), ignore_errors=True)
        return name, bad, len(comps)

    with ThreadPoolExecutor(max_workers=common.NCPU) as ex:
        results = list(ex.map(one, progs))
    return results


def run_c19(pid, tier, seed):
    t0 = time.time()
    common.build_compiler()
    c12.build_tools()
    shutil.rmtree(WORK, ignore_errors=True)
    progs = programs(tier)
    violations = []
    sigs = set()
    # ---- static part: textual agreement of the two builds
    results = run_c19_static(progs, None)
    comps = 0
    for name, bad, ncomp in results:
        comps += ncomp
        for sig, msg in bad:
            s = f"static:{sig}"
            if s not in sigs:
                sigs.add(s)
                violations.append({"sig": s, "summary": f"program {name}: {msg[:1500]}", "replay": {"program": name, "static": sig}})
    # ---- dynamic part: the same explored histories against a harness built from each build type
    theories = modelgen.load_corpus("k", only_quick=(tier == "quick"))
    bin_m, infos_m = modelgen.build_models("k", modelgen.load_corpus("k"))
    batch = "kc" if tier == "quick" else "kc_all"
    bin_c, infos_c = modelgen.build_models(batch, theories, component=True)
    bad = [i for i in infos_c if not i["ok"]]
    if bad:
        raise common.MachineryError("component builds of corpus theories failed: " + "; ".join(f"{i['name']}: {i.get('error','')[:200]}" for i in bad[:4]))
    only = ",".join(n for n, _ in theories)
    outdir = os.path.join(common.BUILD, "out", f"c19-{os.getpid()}")
    os.makedirs(outdir, exist_ok=True)
    depth = {"quick": "3", "thorough": "5"}[tier]
    dumps = {}
    res0 = None
    for label, binary in (("module", bin_m), ("component", bin_c)):
        dump = os.path.join(outdir, label + ".tsv")
        out = os.path.join(outdir, label + ".json")
        p = subprocess.run([binary, "C19", "--tier", tier, "--only", only, "--out", out, "--dump-transcripts", dump],
                           env=common.env_offline({"VERIF_DEPTH": depth}), stdout=subprocess.PIPE, stderr=subprocess.PIPE, timeout=4 * 3600)
        if p.returncode != 0:
            raise common.MachineryError(f"{label}-build harness failed: {p.stderr.decode()[-2000:]}")
        with open(out) as f:
            r = json.load(f)
        if res0 is None:
            res0 = r
        for v in r.get("violations", []):
            v = dict(v, sig=f"{label}:{v['sig']}")
            violations.append(v)
        with open(dump) as f:
            dumps[label] = f.read().splitlines()
    a, b = dumps["module"], dumps["component"]
    if a != b:
        bm = {tuple(l.split("\t")[:2]): l for l in a}
        diffs = [(l, bm.get(tuple(l.split("\t")[:2]))) for l in b if bm.get(tuple(l.split("\t")[:2])) != l]
        if not diffs:
            diffs = [(f"{len(b)} histories", f"{len(a)} histories")]
        diffs.sort(key=lambda d: len(d[0]))
        l, m = diffs[0]
        parts = l.split("\t")
        violations.append({"sig": f"{parts[0]}:transcript-differs", "theory": parts[0],
                           "summary": f"the same API history gives different observable results against the component build and the module build: {l!r} vs {m!r} ({len(diffs)} histories differ)",
                           "replay": {"theory": parts[0], "history_text": parts[3] if len(parts) > 3 else ""}})
    shutil.rmtree(outdir, ignore_errors=True)
    shutil.rmtree(WORK, ignore_errors=True)
    cov = {"evaluations": len(results) + len(a) + len(b), "distinct_nontrivial": len(set(l.split("\t")[2] for l in a)),
           "rule": "static: every accepted program of the corpora is built both ways and the environment structs, imported/exported symbols and rule code are compared textually; dynamic: every history explored by the BFS (depth %s) is run against a harness linked with the component libraries (real rustc) and against the single-module harness and the transcripts are compared; distinct_nontrivial = distinct transcripts" % depth,
           "programs_compared_statically": len(results), "component_sources_compared": comps,
           "theories_run_both_ways": len(theories), "histories_per_build": len(a),
           "states": res0.get("states"), "transitions": res0.get("transitions"), "exhaustive": True,
           "samples": [l.split("\t")[3] for l in a[len(a) // 2: len(a) // 2 + 3]] or ["(none)"]}
    return common.finish(pid, tier, "exploration", cov, violations, t0,
                         ["static comparison uses the stand-in rustc for speed; the dynamic comparison compiles every component with the real rustc and links the result",
                          "observable results = ids, return values, ordered iterator outputs after every call"], seed)


def replay_c19(pid, path):
    print("C19 replays by re-running the quick sweep")
    return run_c19(pid, "quick", 0)

"""Shared orchestration for /verif/check: builds from /repo's working tree, engine invocation,
evidence files, violation / known-finding reporting."""
import fcntl, hashlib, json, os, re, subprocess, sys, time

ROOT = os.path.dirname(os.path.dirname(os.path.abspath(__file__)))
REPO = os.environ.get("VERIF_REPO", "/repo")
BUILD = os.environ.get("VERIF_BUILD", os.path.join(ROOT, "build"))
ENGINE = os.path.join(ROOT, "engine")
if REPO != "/repo":
    # experiments against a scratch checkout: the harness workspace path-depends on /repo/eqlog-runtime,
    # so work on a copy of it that points at the scratch checkout (never used by registered commands)
    import shutil as _sh
    _copy = os.path.join(BUILD, "engine-copy")
    os.makedirs(BUILD, exist_ok=True)
    for _d, _, _fs in os.walk(ENGINE):
        for _f in _fs:
            _src = os.path.join(_d, _f)
            _dst = os.path.join(_copy, os.path.relpath(_src, ENGINE))
            os.makedirs(os.path.dirname(_dst), exist_ok=True)
            with open(_src, "rb") as _fh:
                _data = _fh.read()
            if _f == "Cargo.toml":
                _data = _data.replace(b"/repo/eqlog-runtime", os.path.join(REPO, "eqlog-runtime").encode())
            if not os.path.exists(_dst) or open(_dst, "rb").read() != _data:
                with open(_dst, "wb") as _fh:
                    _fh.write(_data)
    ENGINE = _copy
TARGET_COMPILER = os.path.join(BUILD, "target-compiler")
TARGET_ENGINE = os.path.join(BUILD, "target-engine")
EQLOG_BIN = os.path.join(TARGET_COMPILER, "debug", "eqlog")
NCPU = os.cpu_count() or 4

PROFILE_CFG = []
for prof in ("profile.dev", "profile.dev.build-override"):
    PROFILE_CFG += ["--config", f"{prof}.opt-level=1", "--config", f"{prof}.debug=false",
                    "--config", f"{prof}.incremental=false"]


class MachineryError(Exception):
    pass


def env_offline(extra=None):
    e = dict(os.environ)
    e["CARGO_NET_OFFLINE"] = "true"
    e.setdefault("CARGO_TERM_COLOR", "never")
    if extra:
        e.update(extra)
    return e


class BuildLock:
    """Serialises builds between concurrently running checks."""
    def __init__(self, name="build"):
        os.makedirs(BUILD, exist_ok=True)
        self.path = os.path.join(BUILD, f".{name}.lock")
    def __enter__(self):
        self.f = open(self.path, "w")
        fcntl.flock(self.f, fcntl.LOCK_EX)
        return self
    def __exit__(self, *a):
        fcntl.flock(self.f, fcntl.LOCK_UN)
        self.f.close()


def run(cmd, what, env=None, cwd=None, timeout=None, quiet=True):
    t0 = time.time()
    p = subprocess.run(cmd, cwd=cwd, env=env or env_offline(), stdout=subprocess.PIPE,
                       stderr=subprocess.STDOUT, timeout=timeout)
    out = p.stdout.decode("utf-8", "replace")
    if p.returncode != 0:
        tail = "\n".join(out.splitlines()[-60:])
        raise MachineryError(f"{what} failed (exit {p.returncode}) after {time.time()-t0:.0f}s:\n{tail}")
    if not quiet:
        sys.stderr.write(out)
    return out


def build_compiler():
    """The eqlog CLI of the current /repo working tree (same feature set as the test suite)."""
    with BuildLock("compiler"):
        run(["cargo", "build", "--manifest-path", os.path.join(REPO, "eqlog", "Cargo.toml"),
             "--features", "rebuild", "--offline"] + PROFILE_CFG,
            "build of the eqlog compiler from the working tree",
            env=env_offline({"CARGO_TARGET_DIR": TARGET_COMPILER}), cwd=REPO, timeout=3600)
    if not os.path.exists(EQLOG_BIN):
        raise MachineryError("eqlog binary missing after build")
    return EQLOG_BIN


def build_engine(package, features=None):
    """Harness crates; path-depend on /repo/eqlog-runtime (feature verif), so they rebuild from the tree."""
    lock = os.path.join(ENGINE, "Cargo.lock")
    if not os.path.exists(lock):
        import shutil
        shutil.copy(os.path.join(REPO, "Cargo.lock"), lock)
    cmd = ["cargo", "build", "--offline", "-p", package]
    if features:
        cmd += ["--features", ",".join(features)]
    with BuildLock("engine"):
        run(cmd, f"build of harness crate {package}",
            env=env_offline({"CARGO_TARGET_DIR": TARGET_ENGINE}), cwd=ENGINE, timeout=3600)
    return os.path.join(TARGET_ENGINE, "debug", package)


def run_engine(binary, args, timeout=None, env=None):
    """Runs an engine that writes its result JSON to --out; engine crashes are machinery errors."""
    os.makedirs(os.path.join(BUILD, "out"), exist_ok=True)
    out = os.path.join(BUILD, "out", f"{os.path.basename(binary)}-{os.getpid()}-{int(time.time()*1000)}.json")
    p = subprocess.run([binary] + args + ["--out", out], env=env or env_offline(),
                       stdout=subprocess.PIPE, stderr=subprocess.PIPE, timeout=timeout)
    if p.returncode != 0 or not os.path.exists(out):
        raise MachineryError(f"engine {binary} {' '.join(args)} exited {p.returncode}:\n"
                             + p.stderr.decode('utf-8', 'replace')[-3000:])
    with open(out) as f:
        res = json.load(f)
    os.unlink(out)
    return res


def load_known():
    path = os.path.join(ROOT, "known_findings.json")
    if not os.path.exists(path):
        return {"findings": [], "fixed": []}
    with open(path) as f:
        return json.load(f)


def finding_matches(finding, prop, viol):
    if finding.get("property") != prop:
        return False
    m = finding.get("match", {})
    for key, want in m.items():
        got = viol.get(key)
        if got is None and isinstance(viol.get("replay"), dict):
            got = viol["replay"].get(key)
        if isinstance(want, dict) and "regex" in want:
            if got is None or not re.search(want["regex"], str(got)):
                return False
        elif got != want:
            return False
    return True


def finish(prop, tier, level, coverage, violations, t0, assumptions=None, seed=0):
    """Writes replays + evidence, prints VIOLATION / KNOWN-FINDING lines, returns the exit code."""
    known = load_known()
    outroot = BUILD if "VERIF_BUILD" in os.environ else ROOT
    rdir = os.path.join(outroot, "replays", prop)
    unlisted, hits = [], {}
    for v in violations:
        text = json.dumps(v, sort_keys=True)
        h = hashlib.sha1(text.encode()).hexdigest()[:16]
        os.makedirs(rdir, exist_ok=True)
        path = os.path.join(rdir, h + ".json")
        with open(path, "w") as f:
            json.dump(dict(v, property=prop), f, indent=1, sort_keys=True)
        listed = None
        for i, fd in enumerate(known.get("findings", [])):
            if finding_matches(fd, prop, v):
                listed = i
                break
        if listed is None:
            unlisted.append((v, path))
        else:
            hits.setdefault(listed, []).append(path)
    for i, paths in hits.items():
        fd = known["findings"][i]
        print(f"KNOWN-FINDING: property={prop} {fd.get('what','')} (id={fd.get('id','?')}, {len(paths)} matching case(s), e.g. {paths[0]})")
    shown = 0
    for v, path in unlisted:
        if shown < 20:
            print(f"VIOLATION property={prop} replay={path}")
            print(f"  {v.get('summary','')[:600]}")
        shown += 1
    if shown > 20:
        print(f"  ... {shown-20} further violations (replays written)")
    coverage = dict(coverage)
    coverage.pop("violations", None)
    coverage["known_findings_hit"] = sorted(known["findings"][i].get("id", str(i)) for i in hits)
    ev = {
        "property_id": prop, "tier": tier, "seed": seed, "level": level,
        "coverage": coverage, "assumptions": assumptions or [],
        "wall_s": round(time.time() - t0, 2), "violations": len(unlisted),
    }
    os.makedirs(os.path.join(outroot, "evidence"), exist_ok=True)
    tmp = os.path.join(outroot, "evidence", f".{prop}.json.tmp")
    with open(tmp, "w") as f:
        json.dump(ev, f, indent=1)
    os.replace(tmp, os.path.join(outroot, "evidence", f"{prop}.json"))
    n_ok = "no unlisted violation" if not unlisted else f"{len(unlisted)} unlisted violation(s)"
    print(f"[{prop}] tier={tier} level={level} {summary_line(coverage)} -> {n_ok} in {ev['wall_s']}s")
    return 1 if unlisted else 0


def summary_line(cov):
    keys = ["states", "transitions", "evaluations", "distinct_nontrivial", "exhaustive"]
    return " ".join(f"{k}={cov[k]}" for k in keys if k in cov)

#!/usr/bin/env python3
"""Regenerates /verif/MANIFEST.json from the table below (single source of truth)."""
import json, os, subprocess
ROOT = os.path.dirname(os.path.dirname(os.path.abspath(__file__)))

CHECKS = {
 "C08": dict(level="model_checking", design="4/C08", engine="containers",
   technique="explicit-state BFS over operation sequences on families of live containers (real code), reference BTreeSet",
   text="Breadth-first exploration of every operation sequence (insert/remove/contains/iter/get/iter_restrictions/clear/union/difference/insert_restriction/remove_restriction/mapped/clone/assign) on a family of live prefix trees (A, B, sub-relation S, earlier clone C) for each arity 0..9, de-duplicated by the Debug rendering of all four containers; every live container is compared with a BTreeSet after every step, so set semantics, sorted iteration, exact emptiness, prefix lookups and clone independence are decided for all sequences up to the reported depth (fixpoint for the smallest arities).",
   note="Trusted: std BTreeSet, the Debug impls used as state key (over-fine keys only cost time). Tuples come from the stated pools; get_mut/iter_restrictions_mut excluded as documented unsafe for the invariant."),
 "C14": dict(level="model_checking", design="4/C14", engine="containers",
   technique="explicit-state search over reachable tree shapes to a fixpoint (real WBTreeMap via verif_shape hook), all pairs for union/difference, reference BTreeMap",
   text="All tree shapes reachable over a key universe of K keys are enumerated to a fixpoint by running the real map; every unary operation on every shape and union/difference (non-commutative merge, three diff callbacks) on every ordered pair of shapes is checked against BTreeMap, with exact len, search-tree order, cached sizes, the repository's weight-balance predicate, the logarithmic height bound, callback argument order and independence of earlier clones (incl. follow-up mutations of results that share nodes with their operands).",
   note="Trusted: std BTreeMap; the add-only hook verif_shape (reads the tree, never writes). Values are excluded from the state key by parametricity in V."),
 "C18": dict(level="exploration", design="4/C18", engine="containers",
   technique="bounded-exhaustive enumeration of all morphism graphs and all new/old table splits against an independent cycle check",
   text="Every pair of partial maps dom, cod from <=M morphisms to <=N objects and every split of the three tables into new and old parts is passed to the real morphism_toposort; the result must be Err exactly when the fully defined morphisms contain a directed cycle and otherwise list exactly those morphisms once, with their signatures, in an order where morphisms into an object precede morphisms out of it. There are no states here, only inputs, hence 'exploration'.",
   note="Trusted: the harness's own cycle check (iterated deletion of source objects). Inputs are partial functions with all objects present in the object table, as the generated caller guarantees."),
}

EXPL = "explicit-state BFS over API histories of the real generated module (state = dump of all private fields, rebuilt by replay), "
EXPL_NOTE = "Trusted: the reference semantics on the source AST (refsem.rs + eqlparse.py), the generated glue (textual inclusion, read-only), std collections. Programs are the curated corpus K (corpus/k) and, for C01-C06, the systematic rule-shape sweep S (corpus/s: every 1- and 2-atom premise shape over a fixed signature, a conclusion pool, premise-equality placements); bounds are deterministic per-theory transition budgets (depth, elements, budgets hit are in the evidence)."
CHECKS.update({
 "C01": dict(level="model_checking", design="4/C01", engine="models", technique=EXPL + "oracle: naive re-evaluation of the source rules on the closed model",
   text="Every history of new_/insert_/define_/equate_/close calls up to the bound is executed on the code the current compiler generates for each corpus theory; after every close() the dumped model is checked against every control-flow path of every source rule (no match may lack its conclusion) and for single-valued functions, and close() must return within the iteration bound.", note=EXPL_NOTE),
 "C02": dict(level="model_checking", design="4/C02", engine="models", technique=EXPL + "oracle: isomorphism modulo caller-created elements with a reference naive chase",
   text="For every explored history the closed model must be isomorphic, by the unique map fixing the caller's elements and extended along function graphs, to the reference chase of the asserted facts: no spurious tuple, equality or element, none missing.", note=EXPL_NOTE),
 "C03": dict(level="model_checking", design="4/C03", engine="models", technique=EXPL + "differential oracle: histories with the same assertion set must close to isomorphic models; close is idempotent",
   text="All explored histories are grouped by the set of facts they assert (permutations, interleaved closes, re-assertions); every member's closed model must be isomorphic modulo handles to the group's first member, and a second close() must change neither the public dump nor the id counters. No reference semantics involved.", note=EXPL_NOTE),
 "C04": dict(level="model_checking", design="4/C04", engine="models", technique=EXPL + "invariants on public queries and on all private index copies at every return of close/close_until and at every condition evaluation",
   text="In every explored state, right after close()/close_until() and each time close_until evaluates its condition: iterators yield distinct canonical tuples, iter_<type> one representative per class, point queries agree with iterators for all tuples of allocated ids, enum cases agree with constructor graphs; all order copies of an age hold the same set, new and old are disjoint, diagonal copies equal the filtered projection, the union equals the public iterator, every row is listed in the element index of each argument.", note=EXPL_NOTE),
 "C05": dict(level="model_checking", design="4/C05", engine="models", technique=EXPL + "oracle on every transition: driver-side union-find and tuple sets",
   text="On every transition of the search the return value and the visible effect of the API call are compared with a reference kept by the driver: are_equal_ is exactly the last closed state's equality plus the equate_ calls since, root_ is an idempotent representative, and (while no equate_ happened since the last close) inserted tuples are visible once, define_ returns the existing value or a fresh id, new_ a fresh distinct id. The union-find itself (eqlog_runtime::Unification) is searched to a fixpoint: every reachable parent vector over <=6 (quick) / <=7 (thorough) elements under root / union_roots_into / increase_size_to against a plain partition.", note=EXPL_NOTE),
 "C06": dict(level="model_checking", design="4/C06", engine="models", technique=EXPL + "liveness made checkable by counting iterations through the close_until condition; id counters before/after",
   text="For every corpus theory without `!` and every explored history, close() must return within an iteration bound no correct surjective closure can reach, allocate no element id and not increase the number of classes of any type.", note=EXPL_NOTE),
 "C07": dict(level="model_checking", design="4/C07", engine="models", technique=EXPL + "alphabet extended with close_until(cond) for a finite family of conditions incl. stop-at-k-th-evaluation; oracles: contract, homomorphism into the chase, resumption",
   text="Histories additionally contain close_until with every ground condition over the caller's elements, true/false and stop-at-the-k-th-evaluation, followed by further assertions and closes. true => condition holds; false => closed and condition false; every stopping state maps homomorphically into the reference chase; after any continuation ending in close() the model is the free model and equals that of the direct history.", note=EXPL_NOTE),
 "C15": dict(level="model_checking", design="4/C15", engine="models", technique=EXPL + "with new_<enum>(case) in the alphabet; oracle on every enum element of every closed state",
   text="For the corpus theories with enums, in every closed state every enum element (iterated or handed out) destructures without panic into a constructor application that evaluates back to it, and new_<enum>(case) results list the case. Static half: scan of the generated API for define_/new_ functions that could create enum elements without a constructor.", note=EXPL_NOTE),
 "C17": dict(level="model_checking", design="4/C17", engine="models", technique=EXPL + "on theories with a model declaration; oracles of C01/C02/C03 with built-in inheritance rules",
   text="For the corpus theories with a model declaration (member predicates and functions over global and over member types, morphism application, rules inside the model), histories create objects, morphisms, dom/cod, members, morphism applications, member facts and closes in every order (acyclic morphism graphs, dependently well-typed inputs), from start states without and with a morphism chain already in place; the closed model must satisfy all rules including inheritance along morphisms with member-typed components replaced by their images, be the reference chase, and not depend on whether morphisms arrived before or after facts and closes.", note=EXPL_NOTE),
})

CHECKS.update({
 "C16": dict(level="exploration", design="4/C16", engine="models", technique="bounded-exhaustive enumeration of labelled (new/old) databases per rule family; one real rule pass of the generated code vs. a naive join over the emitted flat premise, with multiplicities",
   text="For every rule family of every corpus theory, every database over two elements per type with at most N rows per premise relation in which each row and element is labelled old or new is built on the real model (insert, private move_new_to_old, insert), one real rule pass is executed into a fresh delta, and the multiset of pushed conclusion rows must equal the multiset of matches of the flat premise that contain something new - each exactly once, all-old matches never. Inputs, not states: exploration.",
   note="Trusted: the comment above each rule function as the statement of the flat rule (cross-checked against the fields read), the generated glue's extraction of one rule pass from close_until."),
 "C20": dict(level="exploration", design="4/C20", engine="models", technique="every explored API history re-executed in fresh processes under varied address-space layout, environment, allocator settings and harness threading; byte comparison of transcripts; in-process replay check on every expansion",
   text="All histories of the explorer (to the reported depth) are executed under four process configurations (ASLR on/off, padded environment, allocator perturbation, 1/3/16 harness threads); ids, return values and the ordered output of every iterator after every call are hashed per history and must be identical across configurations and across in-process replays. Supplemented by a text scan of generated modules and runtime for unordered containers, clocks, threads and pointer casts.",
   note="The schedule dimension is empty (no threads in generated code or runtime). Trusted: std DefaultHasher with fixed keys for transcripts."),
})

CHECKS.update({
 "C11": dict(level="exploration", design="4/C11", engine="c11 (python driver over the eqlog CLI)", technique="deviation-bounded exhaustive enumeration of source texts around seeds (all layouts, all truncations, all single token edits, pairs in a window) against the real CLI; oracle on exit status and diagnostic well-formedness plus a metamorphic layout clause",
   text="Around 75 seed files (the repository's 45 error sources and 30 accepted theories) every layout variant (LF/CRLF, trailing newline, blank lines, trailing spaces, tabs, multi-byte characters in comments), every truncation and every deletion/duplication/replacement of a token by every token class (thorough: also pairs of edits in a window of 3) is compiled by the CLI built from the working tree. Each run must end with exit 0 or 1; on 1 the message must name lines inside the file, every excerpt line must equal that input line exactly, carets stay inside the excerpt, and layout changes that move no token must not change class, line numbers or excerpt.",
   note="Trusted: the harness's own tokenizer (only used to place edits) and the regular expressions describing the diagnostic format. Inputs are valid UTF-8 within the deviation bound; arbitrary byte soup is not explored."),
})

CHECKS.update({
 "C12": dict(level="fault_enumeration", design="4/C12", engine="c12 (python driver, LD_PRELOAD injector, stand-in rustc)", technique="explicit-state search over (source version, directory content) states with the real eqlog binary as transition function; every crash point / torn write / failing rustc of every build enumerated (crash points of builds that delete files under seven directory-listing orders), deviation-bounded; oracle: byte equality with a clean build, zero mutations on a no-op build",
   text="From the empty directory, all states reachable by edits between four source versions and builds are explored to a fixpoint; then every build from every such state is killed before each of its file-system mutations, torn in the middle of each write, or run with rustc failing for each component (1 deviation quick, up to 2-3 thorough), and the result is closed again under edits and builds. After every build that reports success the output and component directories must equal a clean build of the current version byte for byte, and a second build must perform zero file-system mutations (observed by the injector, not by mtimes). Module and component mode.",
   note="Trusted: the LD_PRELOAD injector (validated against strace at every run), the stand-in rustc (library = function of the source). RAYON_NUM_THREADS=1; simultaneous half-built components are not enumerated."),
})

CHECKS.update({
 "C09": dict(level="exploration", design="4/C09", engine="cli_sweeps (python driver over the eqlog CLI and rustc)", technique="bounded-exhaustive enumeration of accepted corpus programs x both build modes; oracle: eqlog exits 0 without panic, rustc type-checks the module in both flavours and every component, a subset is linked against the runtime / the component libraries and run",
   text="Every accepted program of the corpora (curated K, the repository's accepted theories, generated family G when present) is compiled by the CLI of the working tree as a single module and as module plus one component library per rule (real rustc); rustc must accept the module in both flavours and every component; quick links and runs a few, thorough all. There are no states, only programs: exploration.",
   note="Trusted: the installed rustc. Programs outside the corpora are not covered; the identifier/arity preconditions of the property hold for the corpora by construction."),
 "C13": dict(level="exploration", design="4/C13", engine="cli_sweeps", technique="enumeration of accepted programs x process configurations (repetition, 1/2/16 worker threads, directory layout, ASLR, environment, allocator) x both build modes; oracle: byte equality of all generated text files; injector record shows one writer task per component",
   text="Each corpus program is compiled under 5 (quick) / 7 (thorough) configurations in both build modes; the module, every component source and every digest must be byte-identical across configurations, and the LD_PRELOAD record of the component build must show each component's files written by a single task. The interleavings of the rayon bridge are not enumerated (stated limit); configurations are.",
   note="Trusted: the injector's record. Not explored: the schedules of the parallel bridge beyond thread-count variation."),
 "C19": dict(level="exploration", design="4/C19", engine="cli_sweeps + models", technique="static: textual comparison of environment structs, imported/exported symbols and rule code between module build and component build for every corpus program; dynamic: the BFS-explored API histories run against a harness linked with the real component libraries and against the module harness, transcripts compared",
   text="For every corpus program both build types are produced from the same source and compared: every environment struct declared in the module equals the declaration in its component, the link names the module imports are exactly the no_mangle symbols the components export, the component source occurs verbatim in the single-file module, and with the embedded rule modules removed the single-file module is the same text as the module of the component build (same struct, same environment construction, same order of rule calls in close_until). For the corpus theories a second harness is linked against the component libraries compiled by the real rustc; every explored history must give identical ids, return values and iterator outputs in both.",
   note="Trusted: rustc/linker. Histories are those of the explorer at the reported depth."),
})

CHECKS.update({
 "C10": dict(level="exploration", design="4/C10", engine="c10 (python driver over the eqlog CLI) + refstatic", technique="bounded-exhaustive enumeration of programs (curated well-formed bases, every single-site mutation of each, thorough: all small rules over atom pools) judged by an independent reference static semantics and compiled by the real CLI",
   text="Every program of the family is analysed by the reference static semantics (symbol table, scopes per control-flow path, type inference by congruence closure, the epic check per then-statement, enum and match rules), which yields the set of (class, line) defects; the CLI must accept iff that set is empty, and otherwise exit 1 with a first message whose class and line are among the defects (or induced consequences) found. Mutation is only the way ill-formed programs are reached; multi-defect mutants are handled by the set-valued oracle.",
   note="Trusted: refstatic.py (calibrated on the repository's 45 error sources and accepted theories inside the fragment). Programs outside the fragment (models, member access, Mor) are skipped and counted."),
})

PENDING = {}

def main():
    props = [json.loads(l) for l in open(os.path.join(ROOT, "properties.jsonl"))]
    checks = []
    na = []
    for p in props:
        pid = p["id"]
        if pid in CHECKS:
            c = CHECKS[pid]
            checks.append({
                "property_id": pid,
                "quick_cmd": f"./check {pid} --tier quick",
                "thorough_cmd": f"./check {pid} --tier thorough",
                "evidence_file": f"/verif/evidence/{pid}.json",
                "replay_cmd_template": f"./check {pid} --replay {{path}}",
                "engine": c["engine"],
                "level_claimed": {"category": c["level"], "text": c["text"], "design_ref": f"DESIGN.md section {c['design']}"},
                "level_note": c["note"],
                "technique": c["technique"],
            })
        else:
            na.append({"property_id": pid, "reason": PENDING.get(pid, "check not built yet (work in progress; designed in DESIGN.md section 4)")})
    hooks_commits = subprocess.run(["git", "-C", "/repo", "log", "--format=%H", "--grep=^verif hook"], stdout=subprocess.PIPE).stdout.decode().split()
    m = {
        "version": 1,
        "setup_cmd": "./setup.sh",
        "hooks": {
            "guard": "cargo feature `verif` of eqlog-runtime",
            "enable": "harness crates depend on /repo/eqlog-runtime with features = [\"verif\"]; nothing else in /repo is built with it",
            "baseline_off_cmd": "cd /repo && cargo test --workspace --no-fail-fast --offline",
            "source_commits": hooks_commits,
            "add_only": True,
        },
        "engines": [
            {"name": "models", "path": "/verif/engine/models", "serves_properties": ["C01", "C02", "C03", "C04", "C05", "C06", "C07", "C15", "C16", "C17", "C20"],
             "kind_free_text": "Rust harness (explorer, oracles, reference semantics in refsem.rs) linked with library crates (engine/gen/*) that contain the modules the current eqlog compiler generates for the corpus plus generated glue; level-synchronous BFS over API histories with replay; engine/shards/s0..s7 are the same sources linked against the eight shards of corpus S"},
            {"name": "containers", "path": "/verif/engine/containers", "serves_properties": ["C05", "C08", "C14", "C18"],
             "kind_free_text": "Rust harness linked against /repo/eqlog-runtime: explicit-state BFS over the real containers / exhaustive input enumeration"},
        ],
        "checks": checks,
        "not_applicable": na,
        "notes": "All checks rebuild from /repo's working tree (cargo fingerprints). Exit 2 + MACHINERY-ERROR is a harness failure, never a verdict. Known findings: /verif/known_findings.json.",
    }
    with open(os.path.join(ROOT, "MANIFEST.json"), "w") as f:
        json.dump(m, f, indent=1)
    print(f"MANIFEST.json: {len(checks)} checks, {len(na)} not_applicable")

if __name__ == "__main__":
    main()

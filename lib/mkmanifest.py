#!/usr/bin/env python3
"""Regenerates /verif/MANIFEST.json from the table below (single source of truth)."""
import json, os, subprocess
ROOT = os.path.dirname(os.path.dirname(os.path.abspath(__file__)))

CHECKS = {
 "C08": dict(level="model_checking", design="4/C08", engine="containers",
   technique="explicit-state BFS over operation sequences on families of live containers (real code), reference BTreeSet",
   text="Breadth-first exploration of every operation sequence (insert/remove/contains/iter/get/iter_restrictions/clear/union/difference/insert_restriction/remove_restriction/mapped/clone/assign) on a family of live prefix trees (A, B, sub-relation S, earlier clone C) for each arity 0..9, de-duplicated by the Debug rendering of all four containers; every live container is compared with a BTreeSet after every step, so set semantics, sorted iteration, exact emptiness, prefix lookups and clone independence are decided for all sequences up to the reported depth (fixpoint for the smallest arities).",
   note="Trusted: std BTreeSet, the Debug impls used as state key (over-fine keys only cost time). Tuples come from the stated pools; get_mut/iter_restrictions_mut excluded as documented unsafe for the invariant."),
 "C14": dict(level="model_checking", design="4/C14", engine="containers",
   technique="explicit-state search over reachable tree shapes to a fixpoint (real WBTreeMap via verif_shape hook), all pairs for union/difference, reference BTreeMap",
   text="All tree shapes reachable over a key universe of K keys are enumerated to a fixpoint by running the real map; every unary operation on every shape and union/difference (non-commutative merge, three diff callbacks) on every ordered pair of shapes is checked against BTreeMap, with exact len, search-tree order, cached sizes, the repository's weight-balance predicate, the logarithmic height bound, callback argument order and independence of earlier clones (incl. follow-up mutations of results that share nodes with their operands).",
   note="Trusted: std BTreeMap; the add-only hook verif_shape (reads the tree, never writes). Values are excluded from the state key by parametricity in V."),
 "C18": dict(level="exploration", design="4/C18", engine="containers",
   technique="bounded-exhaustive enumeration of all morphism graphs and all new/old table splits against an independent cycle check",
   text="Every pair of partial maps dom, cod from <=M morphisms to <=N objects and every split of the three tables into new and old parts is passed to the real morphism_toposort; the result must be Err exactly when the fully defined morphisms contain a directed cycle and otherwise list exactly those morphisms once, with their signatures, in an order where morphisms into an object precede morphisms out of it. There are no states here, only inputs, hence 'exploration'.",
   note="Trusted: the harness's own cycle check (iterated deletion of source objects). Inputs are partial functions with all objects present in the object table, as the generated caller guarantees."),
}

PENDING = {}

def main():
    props = [json.loads(l) for l in open(os.path.join(ROOT, "properties.jsonl"))]
    checks = []
    na = []
    for p in props:
        pid = p["id"]
        if pid in CHECKS:
            c = CHECKS[pid]
            checks.append({
                "property_id": pid,
                "quick_cmd": f"./check {pid} --tier quick",
                "thorough_cmd": f"./check {pid} --tier thorough",
                "evidence_file": f"/verif/evidence/{pid}.json",
                "replay_cmd_template": f"./check {pid} --replay {{path}}",
                "engine": c["engine"],
                "level_claimed": {"category": c["level"], "text": c["text"], "design_ref": f"DESIGN.md section {c['design']}"},
                "level_note": c["note"],
                "technique": c["technique"],
            })
        else:
            na.append({"property_id": pid, "reason": PENDING.get(pid, "check not built yet (work in progress; designed in DESIGN.md section 4)")})
    hooks_commits = subprocess.run(["git", "-C", "/repo", "log", "--format=%H", "--grep=^verif hook"], stdout=subprocess.PIPE).stdout.decode().split()
    m = {
        "version": 1,
        "setup_cmd": "./setup.sh",
        "hooks": {
            "guard": "cargo feature `verif` of eqlog-runtime",
            "enable": "harness crates depend on /repo/eqlog-runtime with features = [\"verif\"]; nothing else in /repo is built with it",
            "baseline_off_cmd": "cd /repo && cargo test --workspace --no-fail-fast --offline",
            "source_commits": hooks_commits,
            "add_only": True,
        },
        "engines": [
            {"name": "containers", "path": "/verif/engine/containers", "serves_properties": ["C08", "C14", "C18"],
             "kind_free_text": "Rust harness linked against /repo/eqlog-runtime: explicit-state BFS over the real containers / exhaustive input enumeration"},
        ],
        "checks": checks,
        "not_applicable": na,
        "notes": "All checks rebuild from /repo's working tree (cargo fingerprints). Exit 2 + MACHINERY-ERROR is a harness failure, never a verdict. Known findings: /verif/known_findings.json.",
    }
    with open(os.path.join(ROOT, "MANIFEST.json"), "w") as f:
        json.dump(m, f, indent=1)
    print(f"MANIFEST.json: {len(checks)} checks, {len(na)} not_applicable")

if __name__ == "__main__":
    main()

// LD_PRELOAD fault injector for the build-protocol exploration (C12, C13).
// Watches mutating libc calls on paths below FSINJECT_ROOTS (colon separated prefixes).
//   FSINJECT_LOG   : append one line per mutation "<pid>:<tid> <call> <path> <len>"
//   FSINJECT_STATE : file holding the shared mutation counter (all processes of the build)
//   FSINJECT_KILL  : k  -> kill the whole process group right before the k-th mutation
//   FSINJECT_TEAR  : k  -> if the k-th mutation is a write, perform half of it, then kill
//   FSINJECT_DIRORDER : asc | desc | ext:<e1>,<e2>,.. -> readdir64 on a watched directory yields the entries sorted by
//                    name (ascending / descending), or by the rank of their extension in the list and then by name
//                    (the order of a directory listing is unspecified: the harness owns it and explores several)
#define _GNU_SOURCE
#include <dirent.h>
#include <dlfcn.h>
#include <errno.h>
#include <fcntl.h>
#include <signal.h>
#include <stdarg.h>
#include <stdio.h>
#include <stdlib.h>
#include <string.h>
#include <sys/file.h>
#include <sys/stat.h>
#include <sys/types.h>
#include <sys/syscall.h>
#include <unistd.h>

#define MAXFD 4096
static char *watched_fd[MAXFD];
static int initialised = 0;
static char roots[8][512];
static int nroots = 0;
static const char *log_path, *state_path;
static long kill_at = -1, tear_at = -1;

static int (*real_open)(const char *, int, ...);
static int (*real_open64)(const char *, int, ...);
static int (*real_openat)(int, const char *, int, ...);
static int (*real_openat64)(int, const char *, int, ...);
static ssize_t (*real_write)(int, const void *, size_t);
static int (*real_close)(int);
static int (*real_unlink)(const char *);
static int (*real_unlinkat)(int, const char *, int);
static int (*real_mkdir)(const char *, mode_t);
static int (*real_mkdirat)(int, const char *, mode_t);
static int (*real_rename)(const char *, const char *);
static int (*real_ftruncate)(int, off_t);

static void init(void) {
    if (initialised) return;
    initialised = 1;
    real_open = dlsym(RTLD_NEXT, "open");
    real_open64 = dlsym(RTLD_NEXT, "open64");
    real_openat = dlsym(RTLD_NEXT, "openat");
    real_openat64 = dlsym(RTLD_NEXT, "openat64");
    real_write = dlsym(RTLD_NEXT, "write");
    real_close = dlsym(RTLD_NEXT, "close");
    real_unlink = dlsym(RTLD_NEXT, "unlink");
    real_unlinkat = dlsym(RTLD_NEXT, "unlinkat");
    real_mkdir = dlsym(RTLD_NEXT, "mkdir");
    real_mkdirat = dlsym(RTLD_NEXT, "mkdirat");
    real_rename = dlsym(RTLD_NEXT, "rename");
    real_ftruncate = dlsym(RTLD_NEXT, "ftruncate");
    const char *r = getenv("FSINJECT_ROOTS");
    if (r) {
        char buf[4096];
        strncpy(buf, r, sizeof buf - 1);
        buf[sizeof buf - 1] = 0;
        for (char *p = strtok(buf, ":"); p && nroots < 8; p = strtok(NULL, ":")) {
            strncpy(roots[nroots], p, 511);
            nroots++;
        }
    }
    log_path = getenv("FSINJECT_LOG");
    state_path = getenv("FSINJECT_STATE");
    const char *k = getenv("FSINJECT_KILL");
    if (k) kill_at = atol(k);
    const char *t = getenv("FSINJECT_TEAR");
    if (t) tear_at = atol(t);
}

static int is_watched(const char *path, char *abs, size_t n) {
    if (!path) return 0;
    if (path[0] == '/') {
        strncpy(abs, path, n - 1);
        abs[n - 1] = 0;
    } else {
        char cwd[2048];
        if (!getcwd(cwd, sizeof cwd)) return 0;
        snprintf(abs, n, "%s/%s", cwd, path);
    }
    for (int i = 0; i < nroots; i++)
        if (strncmp(abs, roots[i], strlen(roots[i])) == 0) return 1;
    return 0;
}

static long next_count(void) {
    if (!state_path) return 0;
    int fd = real_open(state_path, O_RDWR | O_CREAT, 0644);
    if (fd < 0) return 0;
    flock(fd, LOCK_EX);
    char buf[32] = {0};
    long c = 0;
    if (pread(fd, buf, sizeof buf - 1, 0) > 0) c = atol(buf);
    c++;
    int len = snprintf(buf, sizeof buf, "%ld\n", c);
    if (pwrite(fd, buf, len, 0) < 0) { /* ignore */ }
    flock(fd, LOCK_UN);
    real_close(fd);
    return c;
}

static void die(void) {
    kill(0, SIGKILL);
    _exit(137);
}

// Called right before a mutation. Returns 1 if the caller (a write) should be torn.
static int mutation(const char *call, const char *path, size_t len) {
    long c = next_count();
    if (log_path) {
        int fd = real_open(log_path, O_WRONLY | O_CREAT | O_APPEND, 0644);
        if (fd >= 0) {
            char line[2600];
            int n = snprintf(line, sizeof line, "%d:%ld %s %s %zu\n", (int)getpid(), (long)syscall(SYS_gettid), call, path, len);
            if (real_write(fd, line, n) < 0) { /* ignore */ }
            real_close(fd);
        }
    }
    if (kill_at > 0 && c == kill_at) die();
    if (tear_at > 0 && c == tear_at) return 1;
    return 0;
}

static int handle_open(const char *path, int flags, int fd_result_pending) {
    (void)fd_result_pending;
    char abs[2600];
    if ((flags & (O_WRONLY | O_RDWR)) && is_watched(path, abs, sizeof abs)) {
        if (flags & (O_TRUNC | O_CREAT)) {
            if (mutation((flags & O_TRUNC) ? "open-trunc" : "open-creat", abs, 0)) die();
        }
        return 1;
    }
    return 0;
}

static void remember(int fd, const char *path) {
    if (fd >= 0 && fd < MAXFD) {
        char abs[2600];
        if (is_watched(path, abs, sizeof abs)) {
            free(watched_fd[fd]);
            watched_fd[fd] = strdup(abs);
        }
    }
}

#define OPEN_BODY(REAL, ...)                                   \
    init();                                                    \
    mode_t mode = 0;                                           \
    if (flags & (O_CREAT | O_TMPFILE)) {                       \
        va_list ap;                                            \
        va_start(ap, flags);                                   \
        mode = va_arg(ap, mode_t);                             \
        va_end(ap);                                            \
    }                                                          \
    int w = handle_open(path, flags, 0);                       \
    int fd = REAL(__VA_ARGS__, flags, mode);                   \
    if (w) remember(fd, path);                                 \
    return fd;

int open(const char *path, int flags, ...) { OPEN_BODY(real_open, path) }
int open64(const char *path, int flags, ...) { OPEN_BODY(real_open64, path) }
int openat(int dirfd, const char *path, int flags, ...) { OPEN_BODY(real_openat, dirfd, path) }
int openat64(int dirfd, const char *path, int flags, ...) { OPEN_BODY(real_openat64, dirfd, path) }

ssize_t write(int fd, const void *buf, size_t n) {
    init();
    if (fd >= 0 && fd < MAXFD && watched_fd[fd]) {
        if (mutation("write", watched_fd[fd], n)) {
            if (real_write(fd, buf, n / 2) < 0) { /* ignore */ }
            die();
        }
    }
    return real_write(fd, buf, n);
}

int close(int fd) {
    init();
    if (fd >= 0 && fd < MAXFD && watched_fd[fd]) {
        free(watched_fd[fd]);
        watched_fd[fd] = NULL;
    }
    return real_close(fd);
}

int unlink(const char *path) {
    init();
    char abs[2600];
    if (is_watched(path, abs, sizeof abs)) {
        struct stat st;
        if (lstat(abs, &st) == 0 && mutation("unlink", abs, 0)) die();
    }
    return real_unlink(path);
}

int unlinkat(int dirfd, const char *path, int flags) {
    init();
    char abs[2600];
    if (is_watched(path, abs, sizeof abs)) {
        struct stat st;
        if (lstat(abs, &st) == 0 && mutation("unlink", abs, 0)) die();
    }
    return real_unlinkat(dirfd, path, flags);
}

int mkdir(const char *path, mode_t mode) {
    init();
    char abs[2600];
    if (is_watched(path, abs, sizeof abs)) {
        struct stat st;
        if (stat(abs, &st) != 0 && mutation("mkdir", abs, 0)) die();
    }
    return real_mkdir(path, mode);
}

int mkdirat(int dirfd, const char *path, mode_t mode) {
    init();
    char abs[2600];
    if (is_watched(path, abs, sizeof abs)) {
        struct stat st;
        if (stat(abs, &st) != 0 && mutation("mkdir", abs, 0)) die();
    }
    return real_mkdirat(dirfd, path, mode);
}

int rename(const char *from, const char *to) {
    init();
    char abs[2600];
    if (is_watched(to, abs, sizeof abs) || is_watched(from, abs, sizeof abs)) {
        if (mutation("rename", abs, 0)) die();
    }
    return real_rename(from, to);
}

int ftruncate(int fd, off_t len) {
    init();
    if (fd >= 0 && fd < MAXFD && watched_fd[fd]) {
        if (mutation("ftruncate", watched_fd[fd], (size_t)len)) die();
    }
    return real_ftruncate(fd, len);
}


// ---- directory listings in a controlled order ------------------------------------------------------------
#define MAXDIRS 64
struct dirbuf { DIR *dir; struct dirent64 *ents; int n, pos; };
static struct dirbuf dirbufs[MAXDIRS];
static struct dirent64 *(*real_readdir64)(DIR *);
static int (*real_closedir)(DIR *);
static int dir_order = 0; // 0 = as the file system gives it, 1 = ascending, -1 = descending
static int dir_order_init = 0;

static char ext_rank[8][32];
static int n_ext_rank = 0;
static int rank_of(const char *name) {
    const char *dot = strrchr(name, '.');
    if (dot) for (int i = 0; i < n_ext_rank; i++) if (!strcmp(dot + 1, ext_rank[i])) return i;
    return n_ext_rank;
}
static int cmp_ent(const void *a, const void *b) {
    const char *na = ((const struct dirent64 *)a)->d_name, *nb = ((const struct dirent64 *)b)->d_name;
    if (n_ext_rank) { int ra = rank_of(na), rb = rank_of(nb); if (ra != rb) return ra - rb; }
    int c = strcmp(na, nb);
    return dir_order >= 0 ? c : -c;
}

static int dir_is_watched(DIR *d) {
    char link[64], path[4096], abs[4096];
    snprintf(link, sizeof link, "/proc/self/fd/%d", dirfd(d));
    ssize_t n = readlink(link, path, sizeof path - 1);
    if (n <= 0) return 0;
    path[n] = 0;
    return is_watched(path, abs, sizeof abs);
}

struct dirent64 *readdir64(DIR *d) {
    init();
    if (!real_readdir64) real_readdir64 = dlsym(RTLD_NEXT, "readdir64");
    if (!dir_order_init) {
        dir_order_init = 1;
        const char *o = getenv("FSINJECT_DIRORDER");
        if (o && !strcmp(o, "asc")) dir_order = 1;
        if (o && !strcmp(o, "desc")) dir_order = -1;
        if (o && !strncmp(o, "ext:", 4)) {
            dir_order = 1;
            char buf[256];
            strncpy(buf, o + 4, sizeof buf - 1);
            buf[sizeof buf - 1] = 0;
            for (char *p = strtok(buf, ","); p && n_ext_rank < 8; p = strtok(NULL, ",")) { strncpy(ext_rank[n_ext_rank], p, 31); n_ext_rank++; }
        }
    }
    if (dir_order == 0) return real_readdir64(d);
    struct dirbuf *b = NULL;
    for (int i = 0; i < MAXDIRS; i++) if (dirbufs[i].dir == d) { b = &dirbufs[i]; break; }
    if (!b) {
        if (!dir_is_watched(d)) return real_readdir64(d);
        for (int i = 0; i < MAXDIRS; i++) if (!dirbufs[i].dir) { b = &dirbufs[i]; break; }
        if (!b) return real_readdir64(d);
        b->dir = d; b->ents = NULL; b->n = 0; b->pos = 0;
        struct dirent64 *e;
        while ((e = real_readdir64(d)) != NULL) {
            b->ents = realloc(b->ents, (b->n + 1) * sizeof(struct dirent64));
            memcpy(&b->ents[b->n], e, sizeof(struct dirent64));
            b->n++;
        }
        qsort(b->ents, b->n, sizeof(struct dirent64), cmp_ent);
    }
    if (b->pos >= b->n) return NULL;
    return &b->ents[b->pos++];
}

int closedir(DIR *d) {
    if (!real_closedir) real_closedir = dlsym(RTLD_NEXT, "closedir");
    for (int i = 0; i < MAXDIRS; i++) if (dirbufs[i].dir == d) { free(dirbufs[i].ents); dirbufs[i].dir = NULL; dirbufs[i].ents = NULL; }
    return real_closedir(d);
}

// LD_PRELOAD fault injector for the build-protocol exploration (C12, C13).
// Watches mutating libc calls on paths below FSINJECT_ROOTS (colon separated prefixes).
//   FSINJECT_LOG   : append one line per mutation "<pid>:<tid> <call> <path> <len>"
//   FSINJECT_STATE : file holding the shared mutation counter (all processes of the build)
//   FSINJECT_KILL  : k  -> kill the whole process group right before the k-th mutation
//   FSINJECT_TEAR  : k  -> if the k-th mutation is a write, perform half of it, then kill
#define _GNU_SOURCE
#include <dlfcn.h>
#include <errno.h>
#include <fcntl.h>
#include <signal.h>
#include <stdarg.h>
#include <stdio.h>
#include <stdlib.h>
#include <string.h>
#include <sys/file.h>
#include <sys/stat.h>
#include <sys/types.h>
#include <sys/syscall.h>
#include <unistd.h>

#define MAXFD 4096
static char *watched_fd[MAXFD];
static int initialised = 0;
static char roots[8][512];
static int nroots = 0;
static const char *log_path, *state_path;
static long kill_at = -1, tear_at = -1;

static int (*real_open)(const char *, int, ...);
static int (*real_open64)(const char *, int, ...);
static int (*real_openat)(int, const char *, int, ...);
static int (*real_openat64)(int, const char *, int, ...);
static ssize_t (*real_write)(int, const void *, size_t);
static int (*real_close)(int);
static int (*real_unlink)(const char *);
static int (*real_unlinkat)(int, const char *, int);
static int (*real_mkdir)(const char *, mode_t);
static int (*real_mkdirat)(int, const char *, mode_t);
static int (*real_rename)(const char *, const char *);
static int (*real_ftruncate)(int, off_t);

static void init(void) {
    if (initialised) return;
    initialised = 1;
    real_open = dlsym(RTLD_NEXT, "open");
    real_open64 = dlsym(RTLD_NEXT, "open64");
    real_openat = dlsym(RTLD_NEXT, "openat");
    real_openat64 = dlsym(RTLD_NEXT, "openat64");
    real_write = dlsym(RTLD_NEXT, "write");
    real_close = dlsym(RTLD_NEXT, "close");
    real_unlink = dlsym(RTLD_NEXT, "unlink");
    real_unlinkat = dlsym(RTLD_NEXT, "unlinkat");
    real_mkdir = dlsym(RTLD_NEXT, "mkdir");
    real_mkdirat = dlsym(RTLD_NEXT, "mkdirat");
    real_rename = dlsym(RTLD_NEXT, "rename");
    real_ftruncate = dlsym(RTLD_NEXT, "ftruncate");
    const char *r = getenv("FSINJECT_ROOTS");
    if (r) {
        char buf[4096];
        strncpy(buf, r, sizeof buf - 1);
        buf[sizeof buf - 1] = 0;
        for (char *p = strtok(buf, ":"); p && nroots < 8; p = strtok(NULL, ":")) {
            strncpy(roots[nroots], p, 511);
            nroots++;
        }
    }
    log_path = getenv("FSINJECT_LOG");
    state_path = getenv("FSINJECT_STATE");
    const char *k = getenv("FSINJECT_KILL");
    if (k) kill_at = atol(k);
    const char *t = getenv("FSINJECT_TEAR");
    if (t) tear_at = atol(t);
}

static int is_watched(const char *path, char *abs, size_t n) {
    if (!path) return 0;
    if (path[0] == '/') {
        strncpy(abs, path, n - 1);
        abs[n - 1] = 0;
    } else {
        char cwd[2048];
        if (!getcwd(cwd, sizeof cwd)) return 0;
        snprintf(abs, n, "%s/%s", cwd, path);
    }
    for (int i = 0; i < nroots; i++)
        if (strncmp(abs, roots[i], strlen(roots[i])) == 0) return 1;
    return 0;
}

static long next_count(void) {
    if (!state_path) return 0;
    int fd = real_open(state_path, O_RDWR | O_CREAT, 0644);
    if (fd < 0) return 0;
    flock(fd, LOCK_EX);
    char buf[32] = {0};
    long c = 0;
    if (pread(fd, buf, sizeof buf - 1, 0) > 0) c = atol(buf);
    c++;
    int len = snprintf(buf, sizeof buf, "%ld\n", c);
    if (pwrite(fd, buf, len, 0) < 0) { /* ignore */ }
    flock(fd, LOCK_UN);
    real_close(fd);
    return c;
}

static void die(void) {
    kill(0, SIGKILL);
    _exit(137);
}

// Called right before a mutation. Returns 1 if the caller (a write) should be torn.
static int mutation(const char *call, const char *path, size_t len) {
    long c = next_count();
    if (log_path) {
        int fd = real_open(log_path, O_WRONLY | O_CREAT | O_APPEND, 0644);
        if (fd >= 0) {
            char line[2600];
            int n = snprintf(line, sizeof line, "%d:%ld %s %s %zu\n", (int)getpid(), (long)syscall(SYS_gettid), call, path, len);
            if (real_write(fd, line, n) < 0) { /* ignore */ }
            real_close(fd);
        }
    }
    if (kill_at > 0 && c == kill_at) die();
    if (tear_at > 0 && c == tear_at) return 1;
    return 0;
}

static int handle_open(const char *path, int flags, int fd_result_pending) {
    (void)fd_result_pending;
    char abs[2600];
    if ((flags & (O_WRONLY | O_RDWR)) && is_watched(path, abs, sizeof abs)) {
        if (flags & (O_TRUNC | O_CREAT)) {
            if (mutation((flags & O_TRUNC) ? "open-trunc" : "open-creat", abs, 0)) die();
        }
        return 1;
    }
    return 0;
}

static void remember(int fd, const char *path) {
    if (fd >= 0 && fd < MAXFD) {
        char abs[2600];
        if (is_watched(path, abs, sizeof abs)) {
            free(watched_fd[fd]);
            watched_fd[fd] = strdup(abs);
        }
    }
}

#define OPEN_BODY(REAL, ...)                                   \
    init();                                                    \
    mode_t mode = 0;                                           \
    if (flags & (O_CREAT | O_TMPFILE)) {                       \
        va_list ap;                                            \
        va_start(ap, flags);                                   \
        mode = va_arg(ap, mode_t);                             \
        va_end(ap);                                            \
    }                                                          \
    int w = handle_open(path, flags, 0);                       \
    int fd = REAL(__VA_ARGS__, flags, mode);                   \
    if (w) remember(fd, path);                                 \
    return fd;

int open(const char *path, int flags, ...) { OPEN_BODY(real_open, path) }
int open64(const char *path, int flags, ...) { OPEN_BODY(real_open64, path) }
int openat(int dirfd, const char *path, int flags, ...) { OPEN_BODY(real_openat, dirfd, path) }
int openat64(int dirfd, const char *path, int flags, ...) { OPEN_BODY(real_openat64, dirfd, path) }

ssize_t write(int fd, const void *buf, size_t n) {
    init();
    if (fd >= 0 && fd < MAXFD && watched_fd[fd]) {
        if (mutation("write", watched_fd[fd], n)) {
            if (real_write(fd, buf, n / 2) < 0) { /* ignore */ }
            die();
        }
    }
    return real_write(fd, buf, n);
}

int close(int fd) {
    init();
    if (fd >= 0 && fd < MAXFD && watched_fd[fd]) {
        free(watched_fd[fd]);
        watched_fd[fd] = NULL;
    }
    return real_close(fd);
}

int unlink(const char *path) {
    init();
    char abs[2600];
    if (is_watched(path, abs, sizeof abs)) {
        struct stat st;
        if (lstat(abs, &st) == 0 && mutation("unlink", abs, 0)) die();
    }
    return real_unlink(path);
}

int unlinkat(int dirfd, const char *path, int flags) {
    init();
    char abs[2600];
    if (is_watched(path, abs, sizeof abs)) {
        struct stat st;
        if (lstat(abs, &st) == 0 && mutation("unlink", abs, 0)) die();
    }
    return real_unlinkat(dirfd, path, flags);
}

int mkdir(const char *path, mode_t mode) {
    init();
    char abs[2600];
    if (is_watched(path, abs, sizeof abs)) {
        struct stat st;
        if (stat(abs, &st) != 0 && mutation("mkdir", abs, 0)) die();
    }
    return real_mkdir(path, mode);
}

int mkdirat(int dirfd, const char *path, mode_t mode) {
    init();
    char abs[2600];
    if (is_watched(path, abs, sizeof abs)) {
        struct stat st;
        if (stat(abs, &st) != 0 && mutation("mkdir", abs, 0)) die();
    }
    return real_mkdirat(dirfd, path, mode);
}

int rename(const char *from, const char *to) {
    init();
    char abs[2600];
    if (is_watched(to, abs, sizeof abs) || is_watched(from, abs, sizeof abs)) {
        if (mutation("rename", abs, 0)) die();
    }
    return real_rename(from, to);
}

int ftruncate(int fd, off_t len) {
    init();
    if (fd >= 0 && fd < MAXFD && watched_fd[fd]) {
        if (mutation("ftruncate", watched_fd[fd], (size_t)len)) die();
    }
    return real_ftruncate(fd, len);
}

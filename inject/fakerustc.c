// Stand-in for rustc in component builds under fault injection: "compiles" a component by
// writing a library whose content is a function of the source, so that "the library corresponds to
// the source next to it" is a byte comparison. FAKERUSTC_FAIL=<substring of the source path> makes
// the compilation of that component fail.
#include <stdio.h>
#include <stdlib.h>
#include <string.h>
#include <fcntl.h>
#include <unistd.h>

int main(int argc, char **argv) {
    const char *src = NULL, *out = NULL;
    for (int i = 1; i < argc; i++) {
        if (strcmp(argv[i], "-o") == 0 && i + 1 < argc) { out = argv[++i]; continue; }
        if (strcmp(argv[i], "--extern") == 0 || strcmp(argv[i], "-C") == 0) { i++; continue; }
        if (argv[i][0] != '-' && !src) src = argv[i];
    }
    if (!src || !out) { fprintf(stderr, "fakerustc: missing source or -o\n"); return 2; }
    const char *fail = getenv("FAKERUSTC_FAIL");
    if (fail && *fail && strstr(src, fail)) { fprintf(stderr, "fakerustc: injected failure for %s\n", src); return 1; }
    // plain open/read/write so that the preloaded injector sees (and can interrupt) every step
    int in = open(src, O_RDONLY);
    if (in < 0) { perror("fakerustc: source"); return 1; }
    int o = open(out, O_WRONLY | O_CREAT | O_TRUNC, 0644);
    if (o < 0) { perror("fakerustc: output"); return 1; }
    static char buf[1 << 20];
    const char *hdr = "FAKE-RLIB-COMPILED-FROM\n";
    size_t len = strlen(hdr);
    memcpy(buf, hdr, len);
    ssize_t n;
    while ((n = read(in, buf + len, sizeof buf - len)) > 0) len += (size_t)n;
    if (write(o, buf, len) != (ssize_t)len) { perror("fakerustc: write"); return 1; }
    close(in);
    close(o);
    return 0;
}

#!/bin/sh
# Cold builds, offline: the eqlog compiler of /repo's working tree and the harness crates.
set -e
cd "$(dirname "$0")"
export CARGO_NET_OFFLINE=true
python3 - <<'PY'
import sys, os
sys.path.insert(0, os.path.join(os.getcwd(), "lib"))
import common, setup_all
setup_all.main()
PY
